#!/usr/bin/env python3
"""evidence_fuzz.py <prop> <target> <executions> <corpus files> <violations> <note>
Adds the coverage-guided stage's measured numbers to the evidence file the engine just wrote."""
import json, sys
prop, tgt, execs, corpus, viol, note = sys.argv[1:7]
p = f"/verif/evidence/{prop}.json"
import os
root = os.environ.get("VERIF_ROOT", "/verif")
p = f"{root}/evidence/{prop}.json"
if not os.path.exists(p):
    sys.exit(0)
e = json.load(open(p))
c = e["coverage"]
c["fuzz"] = {"target": tgt, "engine": "libFuzzer (cargo-fuzz), same case decoder -> interpreter -> oracles inside the target", "executions": int(execs), "corpus_files_after": int(corpus), "violations": int(viol), "note": note}
c["evaluations"] = int(c.get("evaluations", 0)) + int(execs)
if int(viol):
    e["violations"] = 1
json.dump(e, open(p, "w"), indent=1)
