#!/bin/bash
# Runs every seeded change against the quick check of the property it was written for.
cd /verif
for d in seeded/*/; do
  n=$(basename $d)
  p=$(python3 -c "import json;print(json.load(open('$d/meta.json'))['property'])")
  tools/seedcheck.sh $n $p
done
