#!/bin/bash
# Sensitivity run in an isolated scratch copy (does not touch /repo or /verif):
# copies /repo (HEAD working tree) and the harness to $ST (default /tmp/vst),
# applies each mutants/*.patch in turn, runs the quick tier of every property
# named in its "# props:" header, expects exit 1, and restores the scratch tree.
# Usage: tools/selftest.sh [pattern]     (results also appended to $ST/results.txt)
ST=${ST:-/tmp/vst}
pat="${1:-}"
mkdir -p $ST/verif
# content-based copy that does not preserve mtimes: a file that differs is rewritten with the
# current time (cargo rebuilds), an identical file keeps the newer mtime a previous
# "git checkout" gave it. Preserving /repo's old mtimes would let cargo reuse artefacts that
# were built from a previously patched tree.
rsync -rlpc --delete --exclude target --exclude .git /repo/ $ST/repo/
rsync -a --delete --exclude target /verif/harness/ $ST/verif/harness/
rsync -a --delete /verif/regress/ $ST/verif/regress/
cp /verif/known_findings.json /verif/run $ST/verif/
rsync -a --delete --exclude target --exclude corpus_run /verif/fuzz/ $ST/verif/fuzz/
rsync -a --delete /verif/corpus/ $ST/verif/corpus/
rsync -a /verif/tools/ $ST/verif/tools/
sed -i "s#/verif/evidence#$ST/verif/evidence#" $ST/verif/tools/evidence_fuzz.py
sed -i "s#path = \"/repo#path = \"$ST/repo#g" $ST/verif/harness/Cargo.toml $ST/verif/harness/*/Cargo.toml
sed -i "s#\.\./harness#$ST/verif/harness#g" $ST/verif/fuzz/Cargo.toml
cd $ST/repo && git init -q 2>/dev/null; git add -A >/dev/null 2>&1; git -c user.email=a@b -c user.name=st commit -q -m base >/dev/null 2>&1
cd $ST/verif
for m in ${MUTDIR:-/verif/mutants}/*${pat}*.patch; do
  props=$(head -1 "$m" | sed 's/# props: //')
  if ! git -C $ST/repo apply "$m" 2>/dev/null; then echo "$(basename $m): DOES NOT APPLY" | tee -a $ST/results.txt; continue; fi
  for p in $props; do
    out=$(VERIF_SEED=${VERIF_SEED:-0} ./run $p ${ST_TIER:-quick} 2>&1); rc=$?
    orc=$(echo "$out" | grep -m1 '^oracle:' )
    if [ $rc -eq 1 ]; then echo "$(basename $m .patch) $p: caught ($orc) $(echo "$out" | grep -m1 -o 'cases=[0-9]*')" | tee -a $ST/results.txt;
    else echo "$(basename $m .patch) $p: MISSED rc=$rc $(echo "$out" | grep -v KNOWN | tail -2 | cut -c1-200 | tr '\n' ' ')" | tee -a $ST/results.txt; fi
  done
  git -C $ST/repo checkout -q -- .
done
