#!/bin/bash
# Sensitivity run: applies each mutants/*.patch to /repo in turn, runs the quick
# tier of every property named in its "# props:" header, expects exit 1, and
# restores /repo. Usage: tools/selftest.sh [pattern]
cd /verif || exit 2
if [ -n "$(git -C /repo status --porcelain --untracked-files=no)" ]; then echo "/repo has uncommitted changes"; exit 2; fi
pat="${1:-}"
for m in mutants/*${pat}*.patch; do
  props=$(head -1 "$m" | sed 's/# props: //')
  if ! git -C /repo apply "$PWD/$m" 2>/dev/null; then echo "$(basename $m): DOES NOT APPLY"; continue; fi
  for p in $props; do
    out=$(VERIF_SEED=${VERIF_SEED:-0} ./run $p quick 2>&1); rc=$?
    orc=$(echo "$out" | grep -m1 '^oracle:' )
    if [ $rc -eq 1 ]; then echo "$(basename $m) $p: caught ($orc) $(echo "$out" | grep -m1 -o 'cases=[0-9]*')";
    else echo "$(basename $m) $p: MISSED rc=$rc $(echo "$out" | tail -2 | tr '\n' ' ')"; fi
  done
  git -C /repo checkout -- .
done
