#!/bin/bash
# Runs the quick checks of the given properties against one seeded change (in the
# isolated scratch copy used by selftest.sh) and records the outcome in its meta.json.
#   tools/seedcheck.sh <seeded dir name> <prop> [<prop> ...]
d=/verif/seeded/$1; shift
props="$*"
tmp=$(mktemp -d)
( echo "# props: $props"; cat $d/patch.diff ) > $tmp/$(basename $d).patch
out=$(MUTDIR=$tmp /verif/tools/selftest.sh 2>&1 | grep -E "caught|MISSED|APPLY")
echo "$out"
python3 - "$d" "$out" <<'PY'
import json,sys
d,out=sys.argv[1],sys.argv[2]
m=json.load(open(d+'/meta.json'))
for l in out.splitlines():
    parts=l.split()
    if len(parts)>=3 and parts[1].endswith(':'):
        prop=parts[1][:-1]
        import os
        seed=os.environ.get("VERIF_SEED","0")
        name=f"./run {prop} quick" if seed=="0" else f"VERIF_SEED={seed} ./run {prop} quick"
        entry={"check":name,"result":' '.join(parts[2:])}
        m['checks_run']=[c for c in m['checks_run'] if c['check']!=entry['check']]+[entry]
        if 'caught' in parts[2]:
            if prop not in m['caught_by']: m['caught_by'].append(prop)
json.dump(m,open(d+'/meta.json','w'),indent=1)
PY
rm -rf $tmp
