#!/bin/bash
# False-alarm probe: applies a behaviour-preserving patch in the isolated scratch copy
# used by selftest.sh and runs the quick tier of the given properties (default: all);
# every check is expected to exit 0.
#   tools/benigncheck.sh <patch> [<prop> ...]
patch=$1; shift
props="$*"; [ -z "$props" ] && props="C01 C02 C03 C04 C05 C06 C07 C08 C09 C10 C11 C12 C13 C14 C15 C16 C17 C18 C19"
tmp=$(mktemp -d)
( echo "# props: $props"; cat "$patch" ) > $tmp/$(basename "$patch" .diff).patch
MUTDIR=$tmp /verif/tools/selftest.sh 2>&1 | grep -E "caught|MISSED|APPLY" | sed 's/MISSED rc=0/silent (rc=0)/; s/: caught/: ALARM/; s/MISSED rc=2/INCONCLUSIVE rc=2/'
rm -rf $tmp
