#!/bin/bash
# Confirms a seeded defect produced by a sub-agent in its scratch worktree:
#   tools/confirm_seed.sh <worktree> <patch> <demo.rs> [<crate -p name>] [<tests dir relative to worktree>]
# 1. demo passes without the patch; 2. with the patch the existing tests of that crate pass
# (demo not present); 3. with the patch the demo fails. Prints one summary line.
WT=$1; PATCH=$2; DEMO=$3; PKG=${4:-deadpool}; TDIR=${5:-tests}
export CARGO_TARGET_DIR=/tmp/seed/target CARGO_NET_OFFLINE=true
cd "$WT" || exit 2
git checkout -q -- . ; rm -f $TDIR/seeded_demo*.rs
name=seeded_demo_$(basename "$PATCH" .diff | sed 's/patch_//')
feat=""; [ "$PKG" = deadpool ] && feat="--features rt_tokio_1,serde"
cp "$DEMO" $TDIR/$name.rs
without=$(cargo test --offline -p $PKG $feat --test $name 2>&1 | grep -E "^test result" | tail -1 | cut -c1-40)
rm -f $TDIR/$name.rs
if ! git apply "$PATCH"; then echo "$(basename $WT) $(basename $PATCH): PATCH DOES NOT APPLY"; exit 1; fi
suite=$(cargo test --offline -p $PKG $feat --no-fail-fast 2>&1)
compiled=$(echo "$suite" | grep -c "could not compile")
failed=$(echo "$suite" | grep -E "^test .* FAILED" | grep -v -E "^test (basic|generic_client|prepare_typed_cached|prepare_typed_error|recycling_methods|statement_cache_clear|statement_caches_clear|transaction_1|transaction_2|transaction_builder|transaction_pipeline) " | tr '\n' ';')
passed=$(echo "$suite" | grep -E "^test .* ok$" | wc -l)
cp "$DEMO" $TDIR/$name.rs
withp=$(cargo test --offline -p $PKG $feat --test $name 2>&1 | grep -E "^test result" | tail -1 | cut -c1-46)
git checkout -q -- . ; rm -f $TDIR/seeded_demo*.rs
echo "$(basename $WT) $(basename $PATCH): compile_fail=$compiled | demo without patch: $without | existing tests with patch: $passed ok, failed: [$failed] | demo with patch: $withp"
