#!/bin/bash
# Confirms a seeded defect produced by a sub-agent in its scratch worktree:
#   tools/confirm_seed.sh <worktree> <patch> <demo.rs> [<package>] [<tests dir>] [<cargo feature args>]
# 1. demo passes without the patch; 2. the existing tests of that package that pass without
# the patch still pass with it (demo not present); 3. with the patch the demo fails.
WT=$1; PATCH=$2; DEMO=$3; PKG=${4:-deadpool}; TDIR=${5:-tests}; FEAT=${6:-}
[ "$PKG" = deadpool ] && [ -z "$FEAT" ] && FEAT="--features rt_tokio_1,serde"
export CARGO_TARGET_DIR=${CTD:-/tmp/seed/target} CARGO_NET_OFFLINE=true
cd "$WT" || exit 2
git checkout -q -- . ; rm -f $TDIR/seeded_demo*.rs; mkdir -p $TDIR
name=seeded_demo_$(basename "$PATCH" .diff | sed 's/patch_//')
failed_set() { grep -E "^test .* FAILED" | grep -v "^test result" | sort -u; }
base=$(cargo test --offline -p $PKG $FEAT --no-fail-fast 2>&1 | failed_set)
cp "$DEMO" $TDIR/$name.rs
without=$(cargo test --offline -p $PKG $FEAT --test $name 2>&1 | grep -E "^test result" | tail -1 | cut -c1-40)
rm -f $TDIR/$name.rs
if ! git apply "$PATCH"; then echo "$(basename $WT) $(basename $PATCH): PATCH DOES NOT APPLY"; exit 1; fi
suite=$(cargo test --offline -p $PKG $FEAT --no-fail-fast 2>&1)
compiled=$(echo "$suite" | grep -c "could not compile")
with=$(echo "$suite" | failed_set)
newfail=$(comm -13 <(echo "$base") <(echo "$with") | tr '\n' ';')
passed=$(echo "$suite" | grep -E "^test .* ok$" | wc -l)
cp "$DEMO" $TDIR/$name.rs
withp=$(cargo test --offline -p $PKG $FEAT --test $name 2>&1 | grep -E "^test result" | tail -1 | cut -c1-46)
git checkout -q -- . ; rm -f $TDIR/seeded_demo*.rs; git clean -fdq $TDIR 2>/dev/null
echo "$(basename $WT) $(basename $PATCH): compile_fail=$compiled | demo without patch: $without | existing tests with patch: $passed ok, newly failing: [$newfail] | demo with patch: $withp"
