#!/usr/bin/env python3
"""mkmutant.py <name> <props> <file>   (stdin: old text, a line '=====', new text)

Creates /verif/mutants/<name>.patch (diff against /repo HEAD) with a header
naming the properties the change breaks. /repo is restored afterwards."""
import subprocess
import sys

name, props, path = sys.argv[1:4]
dirty = subprocess.run(["git", "-C", "/repo", "status", "--porcelain", "--untracked-files=no"], capture_output=True, text=True).stdout
if dirty.strip():
    sys.exit("refusing: /repo has uncommitted changes (they would be lost)")
old, new = sys.stdin.read().split("\n=====\n")
new = new.rstrip("\n")
old = old.rstrip("\n")
full = "/repo/" + path
s = open(full).read()
assert s.count(old) == 1, f"anchor occurs {s.count(old)} times"
open(full, "w").write(s.replace(old, new))
d = subprocess.run(["git", "-C", "/repo", "diff"], capture_output=True, text=True).stdout
subprocess.run(["git", "-C", "/repo", "checkout", "--", "."], check=True)
open(f"/verif/mutants/{name}.patch", "w").write(f"# props: {props}\n" + d)
print("wrote", name)
