#!/bin/bash
# Runs the repository's own test suite with the verification guard OFF and
# checks that the 40 stable baseline tests (from /root/.vp/BASELINE.json, copied
# in tools/baseline_tests.txt) all pass. Exit 0 iff all of them passed.
set -u
unset RUSTFLAGS CARGO_ENCODED_RUSTFLAGS
cd /repo || exit 2
LOG=$(mktemp)
CARGO_NET_OFFLINE=true cargo test --workspace --no-fail-fast --offline >"$LOG" 2>&1
python3 - "$LOG" /verif/tools/baseline_tests.txt <<'PY'
import re,sys
log=open(sys.argv[1]).read().splitlines()
want=[l.strip() for l in open(sys.argv[2]) if l.strip()]
cur=None; res={}
for l in log:
    m=re.match(r'\s*Running (unittests )?(\S+) \(target/debug/deps/([A-Za-z0-9_]+)-[0-9a-f]+\)',l)
    if m:
        cur=(m.group(2),m.group(3)); continue
    m=re.match(r'test (\S+) \.\.\. (\w+)',l)
    if m and cur:
        res.setdefault(m.group(1),[]).append((cur,m.group(2)))
bad=[]
for w in want:
    crate,rest=w.split('::',1)
    parts=rest.split('::')
    # binary name is parts[0]; test path is the remainder (or whole for unit tests)
    cands=[]
    for name,lst in res.items():
        for (src,binname),st in lst:
            full=binname+'::'+name
            if full==rest or (rest.endswith('::'+name) and binname.replace('deadpool_','')==parts[0]) or ('deadpool::'+name==w and src=='src/lib.rs'):
                cands.append(st)
            elif binname=='deadpool' and src=='src/lib.rs' and rest=='managed::'+name:
                cands.append(st)
    if not cands or any(c!='ok' for c in cands):
        bad.append((w,cands))
print(f"baseline: {len(want)-len(bad)}/{len(want)} stable tests passed")
for b in bad: print("NOT PASSED:",b)
sys.exit(1 if bad else 0)
PY
rc=$?
rm -f "$LOG"
exit $rc
