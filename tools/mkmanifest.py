#!/usr/bin/env python3
"""Regenerates /verif/MANIFEST.json from the table below and validates it."""
import json
import subprocess
import sys

ENGINES = {
    "msim": ("harness/msim", "schedule-owning interpreter for the managed pool: proptest-generated histories, fault scripts and thread-level pause points run against the real crate; ground-truth monitors"),
    "usim": ("harness/usim", "schedule-owning interpreter for the unmanaged pool with identity-tagged objects"),
    "tsim": ("harness/tsim", "virtual-clock interpreter (paused tokio clock) for timeouts, zero wait and missing runtimes"),
    "syncx": ("harness/syncx", "SyncWrapper / sqlite / r2d2 / diesel histories with thread-identity and poison oracles"),
    "pgx": ("harness/pgx", "scripted PostgreSQL wire server over in-process duplex streams"),
    "redx": ("harness/redx", "scripted RESP server on a Unix socket"),
    "cfgx": ("harness/cfgx", "config generators with reference translations, round trips and differential oracles"),
}

# property -> (engine, category, text, note, technique, design_ref)
T = "stateful property-based testing (proptest) with generated schedules and fault scripts; "
B = "trusted: the harness's scripted manager, object ledger and call log; schedule points between statements of deadpool and inside every callback made without the pool's lock (sequential consistency; tokio's semaphore internals are not interleaved); stages: random histories, bounded-preemption sweep (every placement of one pause in a pause-free history) and, for C01 C02 C08 C09 C11, lock contention (an operation started while retain() holds the lock in its predicate); bounds max_size <= 5, <= 6 concurrent gets, <= 2 hooks per kind, <= 60 steps"

CHECKS = {
    "C01": ("msim", "exploration",
            "Generated histories (gets, returns, takes, retains, closes), per-call fault scripts (ok / error / panic / gated / never) and thread-level pauses at the cfg(deadpool_verif) schedule points are executed against the real pool; live objects are counted by the objects' own constructors and destructors inside every Manager::create call, after every step and at every park. Finds overshoots of max_size that need a specific interleaving or fault sequence; establishes nothing beyond the explored bounds.",
            B, T + "ground-truth object ledger as oracle", "6 C01"),
    "C02": ("msim", "exploration",
            "Same interpreter, weighted to failure paths followed by load; some scripts make a Manager::detach call of a get() panic (later calls must still work). A stage of histories with timeouts runs on the virtual clock twice: against the C10 model (only deviations that concern capacity or panics are reported) and as a model-free free run that ends with a capacity probe at rest. Oracles: at every quiescent point a getter may wait only if held + admitted getters >= max_size, free permits + held + admitted == max_size, users == held + pending; zero-wait gets at quiescent points must succeed when a slot is free; end-of-history capacity probe through the public API (max_size non-blocking gets succeed, one more times out); no foreign panic escapes get().",
            "liveness is judged at quiescent points of finite histories; " + B, T + "conservation invariants at quiescent points plus public-API capacity probe", "6 C02"),
    "C03": ("msim", "fault_enumeration",
            "Part A enumerates, for every generated configuration and quiescent prefix state, every await point of the next get() (slot wait, each pre_recycle hook, recycle, each post_recycle hook, create, each post_create hook, after 0..2 rejected idle objects) times every abandonment mode (future dropped while suspended, panic at the point, panic after resuming) and compares the pool before and after (differential: users, permits, max_size, size, idle queue order, status, detach/destroy ledger of the discarded objects). Part B runs random multi-task histories with frequent cancellations and panics under the C01/C02/C11 invariants and applies the same differential to every undisturbed abandoned call. The matrix is exhaustive per configuration; configurations and prefixes are sampled.",
            "an enclosing tokio timeout is represented by dropping the future (what tokio's Timeout does); " + B, "exhaustive crash-point enumeration per generated configuration + stateful property-based testing; before/after differential oracle", "6 C03"),
    "C04": ("msim", "exploration",
            "Every get() is checked against the ordered call log of manager and hooks attributed to it: attempts are a prefix of pre_recycle[0..] -> recycle -> post_recycle[0..] or create -> post_create[0..] in registration order, nothing runs after a failing step, a returned object's last attempt is complete and all-ok, rejected objects are detached exactly once, destroyed and never seen again, and an Err carries exactly the scripted create / post_create error (unique serial numbers). Scripts assign outcomes to the n-th call of every callback.",
            B, "stateful property-based testing (proptest) over fault scripts; call-log grammar oracle", "6 C04"),
    "C06": ("msim", "exploration",
            "close() is placed anywhere in generated histories (also after the idle queue was rotated so that its ring buffer wraps, and as the operation started while retain() sits in its predicate), also on its own thread parked between its statements while returns, takes, gets, resizes and retains run. Oracles once close() has returned: waiters were woken and fail with Closed, later gets never yield an object, is_closed stays true, resize changes nothing, at quiescence no idle object remains and status().max_size is 0, objects returned later are destroyed, surviving objects can be used and dropped after every pool handle is gone.",
            B, T + "post-close invariants as oracle", "6 C06"),
    "C07": ("msim", "exploration",
            "Histories of resize(n) interleaved with gets in every phase, returns, takes, retains and failing gets, at task and thread level, judged against an ideal capacity model that is independent of the implementation's arithmetic: free permits at every quiescent point must equal max(0, n - in_use), surplus objects are discarded on return, take never frees a surplus slot, end probe yields exactly n objects. Deviations are accepted only when they are exactly what the known arithmetic of Pool::resize produces for a listed known finding (KF1-KF3); anything else is a violation.",
            "three genuine defects of resize() are recorded, not repaired (known_findings.json); in stretches where a resize overlaps parked operations the size of a surplus is not judged, only its sign; " + B, T + "ideal capacity model with known-finding signature matcher", "6 C07, 7"),
    "C08": ("msim", "exploration",
            "Task-level histories of gets, returns in any order, takes, retains, resizes and rejected recycles in both queue modes. A reference idle queue is maintained from the return log; the first object each get() offers must be its front (Fifo) or back (Lifo), Manager::create may only be called by a get() while the reference queue is empty, and every manager / hook / predicate callback must happen on a thread that is running a pool operation of an allowed kind (building a pool and idle time produce none).",
            "no thread-level pauses (the property quantifies over histories); " + B, "model-based property testing (proptest): reference queue as oracle", "6 C08"),
    "C09": ("msim", "exploration",
            "Generated predicates (bit masks over idle positions and stateful FnMut shapes) and histories mixing retain / take with gets, returns, resizes and close, with pauses in retain and detach_object. Oracles: the predicate is asked exactly once per idle object (in any order), removed / retained match the verdicts, size / idle / permits / users move by exactly the right amounts, take returns the same value and shrinks the pool by one, and a per-object ledger demands exactly one Manager::detach before every hand-over or destruction by a live pool and none for objects that stay.",
            B, T + "detach ledger and before/after books as oracle", "6 C09"),
    "C11": ("msim", "exploration",
            "status() and the guarded snapshot are sampled after every step and at every park. At rest (nothing parked, nobody inside a manager or hook call) the four figures must equal ground truth; at all other instants size <= objects that exist or are being created, available <= size, waiting <= callers inside get(), every counter < 2^32, size > max_size only after a shrink or close.",
            "overflow checks are off in the harness profile so a wrapped counter is observed rather than aborting the process; " + B, T + "ground-truth comparison at rest and range invariants at every schedule point", "6 C11"),
    "C13": ("msim", "exploration",
            "Histories of gets, returns, takes, retains, resizes, rejected recycles, failing hooks and cancellations. Per object id the harness keeps its own hand-out count h. After every hand-out Object::metrics() must show the same created instant, recycle_count == h-1 and recycled absent for h == 1 and non-decreasing afterwards; hooks and Manager::recycle during the h-th hand-out must see recycle_count == h-2 and no recycled instant before the first reuse; post_create hooks see fresh metrics; retain must see exactly what Object::metrics() last reported.",
            "instants are only compared with each other, never with a wall-clock threshold; " + B, "stateful property-based testing (proptest); per-object reference counters as oracle", "6 C13"),
    "C10": ("tsim", "exploration",
            "Managed and unmanaged pools with pool-level and per-call wait / create / recycle timeouts in {none, zero, below one millisecond, finite} handed to the builder in four different ways, runtime present (paused tokio clock, futures polled by hand, every woken future polled after every step, Advance stopping at each pending deadline; lazy steps leave a woken caller unpolled until later, so a completion that came before the deadline is observed after it) or absent (no tokio context at all). An independent reference model of FIFO admission, idle queue, gated create / recycle calls and their deadlines predicts for every call whether it is pending or finished and with which result (object id, Timeout(Wait), Timeout(Create), Closed, NoRuntimeSpecified, Backend), which objects were rejected, and how many slots are in use; build() must refuse non-zero timeouts without a runtime. About 1 % of the cases are a real-time probe: on an ordinary tokio runtime the first poll of a zero-wait call on an exhausted pool must already be the answer.",
            "tokio runtime only; ties between two callers' deadlines are skipped; zero create / recycle timeouts without a runtime and timeouts a call never gets to use are not judged (an up-front NoRuntimeSpecified that touches nothing is accepted)",
            "model-based property testing (proptest) on a virtual clock, plus a libFuzzer stage over the same interpreter in the thorough tier; reference timing model as oracle", "6 C10"),
    "C16": ("pgx", "exploration",
            "deadpool-postgres is run through Manager::from_connect against an in-process scripted PostgreSQL wire server (startup, simple query, Parse / Describe / Sync, Close, BEGIN / ROLLBACK) over tokio duplex streams. Histories of get / return / take / resize / prepare_cached / prepare_typed_cached (direct, through transactions, and several for one key in flight at once) / cache and registry clear / remove, with server-side kills (now, on next query, on next Parse) and failing checks. Oracles: a connection the server closed before a get is never handed out; between return and hand-out the server sees exactly the documented check of the recycling method; a client whose check got an ErrorResponse is never handed out; reference statement-cache map per client (hit = same statement, no frontend message; miss = exactly one Parse with the same text and type oids; size() = number of keys); registry calls reach exactly the clients whose wrapper is alive and not taken (ground truth from Arc counts).",
            "trusted: the scripted server's fidelity; quiescence is reached by a yield loop on a current-thread runtime", "stateful property-based testing (proptest) against a scripted wire-protocol server; reference cache model and wire log as oracle", "6 C16"),
    "C17": ("redx", "exploration",
            "The standalone deadpool-redis pool is built from a redis+unix:// URL and run against an in-process scripted RESP server that answers the n-th recycling PING with the correct echo, a stale echo, another value, the empty string, a prefix or an extension of the expected value, -ERR, a disconnect or silence; histories include GetPair (two get() calls in flight at once) and Churn(n <= 600) rounds of echoed get + return so that PING values reach several digits and pass 256. No PING value may ever be sent twice. At every reuse the server log since the return must be exactly UNWATCH then PING v with v never used before on this pool, answered with v, and the watch set must be empty; a connection whose PING was answered otherwise must never be handed out again and the get must succeed on another connection; Connection::take shrinks the pool by one, the taken connection keeps working and never comes back; the end probe takes the full capacity.",
            "trusted: the scripted server; silence is ended by a 40 ms recycle timeout (no verdict depends on the wall clock); one-directional: rejecting a correct echo is allowed", "stateful property-based testing (proptest) against a scripted RESP server; wire log as oracle", "6 C17"),
    "C18": ("cfgx", "exploration",
            "Generated deadpool_postgres::Config values (every subset of the 20 fields, strings from ASCII / empty / quoting / percent-escape / non-ASCII pools, URLs from a URI and key=value grammar plus mutated and raw strings, every enum variant, pool and manager sections, runtime present or absent, ports from a small pool so that URL / port / ports coincide, create_pool called inside or outside a tokio context). get_pg_config() under catch_unwind is compared with a reference translation written from the statement: InvalidUrl iff tokio_postgres rejects the URL, DbnameMissing / DbnameEmpty by the effective dbname, every set scalar in effect, hosts / hostaddrs / ports = URL's then singular then plural, defaults only when no host is given; builder() must carry the whole pool section (including queue_mode) and the manager section, create_pool must carry them into the built pool and report timeouts without a runtime as a build error.",
            "tokio_postgres's URL parser and single-host interpretation are the reference; USER is pinned for the run", "property-based testing (proptest) with grammar-based generators; reference translation (differential) oracle", "6 C18"),
    "C19": ("cfgx", "exploration",
            "Generated redis / cluster / sentinel Configs (url(s) x connection(s) in {none, some}; grammar and malformed URLs), connection descriptions, sentinel node descriptions and PoolConfig values (durations over the full secs / nanos range). Oracles: both set -> UrlAndConnectionSpecified; accept / reject agrees with the redis crate on the same parameters and the standalone manager shows exactly the ConnectionInfo the redis crate derives (default 127.0.0.1:6379 for neither); conversions in both directions preserve addr, db, username, password, protocol; serde_json and config::Environment round trips are the identity, omitted sections take the documented defaults; on four loopback listeners a cluster / sentinel pool contacts exactly the named ones.",
            "the redis crate is the reference for URL interpretation; tls_params excluded as documented; listener experiments use real loopback sockets", "property-based testing (proptest): differential against the redis crate, round-trip and listener oracles", "6 C19"),
    "C14": ("syncx", "exploration",
            "A SyncWrapper around a value that records the thread and a logical stamp of its construction, of every closure and of its destruction is driven through generated histories of interact (returning / panicking / gated / gated-then-panicking closures), await, cancel, release-gate, drop-wrapper (also by a panicking owner task, and from a thread of its own while a closure is still running: the drop has to return), and poison-check steps on a current-thread or multi-thread tokio runtime with 1 / 2 / 4 blocking threads. Every harness future records the thread of each of its polls. Oracles: constructor, closures and destructor never run on a thread that polled async code or ran the driver; the destructor runs exactly once, after the last closure began and outside every closure's begin..end interval; a panicking closure yields InteractError::Panic and is_mutex_poisoned() from then on; a cancelled interact still lets its closure finish before destruction.",
            "ordering between the async side and the blocking pool is forced by gates, not every timing of the two thread pools is explored; a shrunk case that depends on thread timing may not reproduce, the originally observed case is reported then", "stateful property-based testing (proptest) with thread-identity and logical-stamp oracles", "6 C14"),
    "C15": ("syncx", "exploration",
            "deadpool-sqlite (:memory:), deadpool-r2d2 (scripted ManageConnection with has_broken / is_valid per connection) and deadpool-diesel (SqliteConnection :memory:, Fast / Verified / CustomQuery / CustomFunction) are driven through histories of get, return, interact (ok / panic / cancelled gated closure that panics or quietly breaks the connection when released: before the return, between return and next get, or during the next get's recycle) and mark-broken (r2d2 flags, dangling diesel transaction, failing custom function), on pools with or without harmless hooks. Each connection carries an identity the pool cannot change (PRAGMA user_version or a serial number); no hand-out may show an identity on which a closure panicked or that was reported broken / invalid, the get meeting such a connection must succeed, and the end probe takes max_size healthy connections.",
            "sqlite has no notion of a broken connection (poisoning only); a get blocked behind a gated closure is released after 30 ms by opening all gates, no verdict depends on the wall clock", "stateful property-based testing (proptest) over three SyncWrapper-based pools; immutable connection identity as oracle", "6 C15"),
    "C05": ("usim", "exploration",
            "Histories of get / try_get / timeout_get / add / try_add / remove / try_remove / take / return / cancel on pools built by new, from_config and From<Vec>, with thread-level pauses between the statements of Object::drop, Object::take, _add, try_get and close; an object may also come back while its holder unwinds from a panic. Identity-tagged objects: after every step and at every park each id is in exactly one place (queue, one caller, handed back), none is destroyed by an open pool, queued + checked out <= max_size; sequential model for every call made at a quiescent point (try_add Timeout iff full with the same object back, add pending iff full, try_get Timeout iff empty); at rest status() and both semaphores equal ground truth.",
            "trusted: the harness's ownership ledger; schedule points between statements only; max_size <= 4, <= 6 pending futures", "stateful property-based testing (proptest) with generated schedules; conservation ledger and sequential reference model", "6 C05"),
    "C12": ("usim", "exploration",
            "Same interpreter with close() anywhere (plus a stage of unmanaged histories with a runtime and finite timeouts on the virtual clock, judged for panics and for Closed after close()), weighted to getters parked between permit and pop and to _add / Object::drop parked between their steps while close runs. Every call is wrapped in catch_unwind; after close() returned, waiters must have been woken and fail with Closed, adders get the same object back, later calls fail with Closed, the queue is empty and size equals the objects still checked out, objects returned later are destroyed.",
            "a call that is mis-configured (non-zero timeout without runtime) may report NoRuntimeSpecified on a closed pool; same bounds as C05", "stateful property-based testing (proptest) with generated schedules; panic capture and post-close invariants", "6 C12"),
}

PENDING = {}

T = "stateful property-based testing (proptest) with generated schedules and fault scripts; "
B = "trusted: the harness's scripted manager, object ledger and call log; schedule points between statements of deadpool and inside every callback made without the pool's lock (sequential consistency; tokio's semaphore internals are not interleaved); stages: random histories, bounded-preemption sweep (every placement of one pause in a pause-free history) and, for C01 C02 C08 C09 C11, lock contention (an operation started while retain() holds the lock in its predicate); bounds max_size <= 5, <= 6 concurrent gets, <= 2 hooks per kind, <= 60 steps"

def main():
    props = [json.loads(l)["id"] for l in open("/verif/properties.jsonl")]
    checks = []
    for pid in props:
        if pid not in CHECKS:
            continue
        eng, cat, text, note, tech, ref = CHECKS[pid]
        checks.append({
            "property_id": pid,
            "quick_cmd": f"./run {pid} quick",
            "thorough_cmd": f"./run {pid} thorough",
            "evidence_file": f"/verif/evidence/{pid}.json",
            "replay_cmd_template": "./run replay {path}",
            "engine": eng,
            "level_claimed": {"category": cat, "text": text, "design_ref": f"DESIGN.md section {ref}"},
            "level_note": note,
            "technique": tech,
        })
    na = []
    for pid in props:
        if pid not in CHECKS:
            na.append({"property_id": pid, "reason": PENDING.get(pid, "check not built yet in this session (planned, see DESIGN.md section 6); no claim is made until it exists and is silent on the unchanged tree")})
    hooks_commits = subprocess.run(
        ["git", "-C", "/repo", "log", "--format=%H %s"], capture_output=True, text=True
    ).stdout.splitlines()
    hook_shas = [l.split()[0] for l in hooks_commits if "verif hooks" in l][::-1]
    used = sorted({CHECKS[p][0] for p in CHECKS})
    m = {
        "version": 1,
        "setup_cmd": "./run setup",
        "hooks": {
            "guard": "deadpool_verif",
            "enable": "RUSTFLAGS=\"--cfg deadpool_verif\" (set by /verif/harness/.cargo/config.toml for every harness build; the repository crates are path dependencies, so each check rebuilds them from /repo's working tree). The first two hook commits only add lines; the third replaces `Mutex` in the two `use std::sync::{..}` lists of src/managed/mod.rs and src/unmanaged/mod.rs by a cfg-selected import (std::sync::Mutex with the guard off, a wrapper whose lock() is a schedule point with it on), which is why add_only is false",
            "baseline_off_cmd": "/verif/tools/baseline_off.sh",
            "source_commits": hook_shas,
            "add_only": False,
        },
        "engines": [
            {"name": e, "path": ENGINES[e][0], "serves_properties": [p for p in props if p in CHECKS and CHECKS[p][0] == e], "kind_free_text": ENGINES[e][1]}
            for e in used
        ],
        "checks": checks,
        "not_applicable": na,
        "notes": "Property-based testing / fuzzing only. Exit codes of every check: 0 held, 1 VIOLATION line printed, 2 inconclusive (build failure or watchdog). Known findings: /verif/known_findings.json. Sensitivity patches: /verif/mutants, /verif/seeded.",
    }
    json.dump(m, open("/verif/MANIFEST.json", "w"), indent=1)
    try:
        import jsonschema
        jsonschema.validate(m, json.load(open("/root/.vp/MANIFEST.schema.json")))
        print("MANIFEST.json valid;", len(checks), "checks,", len(na), "not claimed")
    except ImportError:
        print("jsonschema not importable; written without validation")

if __name__ == "__main__":
    main()
