#!/usr/bin/env python3
"""Regenerates /verif/MANIFEST.json from the table below and validates it."""
import json
import subprocess
import sys

ENGINES = {
    "msim": ("harness/msim", "schedule-owning interpreter for the managed pool: proptest-generated histories, fault scripts and thread-level pause points run against the real crate; ground-truth monitors"),
    "usim": ("harness/usim", "schedule-owning interpreter for the unmanaged pool with identity-tagged objects"),
    "tsim": ("harness/tsim", "virtual-clock interpreter (paused tokio clock) for timeouts, zero wait and missing runtimes"),
    "syncx": ("harness/syncx", "SyncWrapper / sqlite / r2d2 / diesel histories with thread-identity and poison oracles"),
    "pgx": ("harness/pgx", "scripted PostgreSQL wire server over in-process duplex streams"),
    "redx": ("harness/redx", "scripted RESP server on a Unix socket"),
    "cfgx": ("harness/cfgx", "config generators with reference translations, round trips and differential oracles"),
}

# property -> (engine, category, text, note, technique, design_ref)
CHECKS = {
    "C01": ("msim", "exploration",
            "Generated histories (gets, returns, takes, retains, closes), per-call fault scripts (ok / error / panic / gated / never) and thread-level pauses at 40 schedule points are executed against the real pool; live objects are counted by the objects' own constructors and destructors inside every Manager::create call, after every step and at every park. Finds overshoots of max_size that need a specific interleaving or fault sequence; establishes nothing beyond the explored bounds.",
            "trusted: the harness's scripted manager and object ledger; schedule points only between statements of deadpool (sequential consistency, tokio semaphore internals not interleaved); max_size <= 4, <= 6 concurrent gets, <= 60 steps",
            "stateful property-based testing (proptest) with generated schedules and fault scripts; ground-truth object ledger as oracle", "6 C01"),
    "C02": ("msim", "exploration",
            "Same interpreter, weighted to failure paths followed by load. Oracles: at every quiescent point a getter may wait only if held + admitted getters >= max_size, free permits + held + admitted == max_size, users == held + pending; zero-wait gets at quiescent points must succeed when a slot is free; end-of-history capacity probe through the public API (max_size non-blocking gets succeed, one more times out); no foreign panic escapes get().",
            "liveness is judged at quiescent points of finite histories; same bounds and trusted base as C01",
            "stateful property-based testing (proptest); conservation invariants at quiescent points plus public-API capacity probe", "6 C02"),
}

PENDING = {}

def main():
    props = [json.loads(l)["id"] for l in open("/verif/properties.jsonl")]
    checks = []
    for pid in props:
        if pid not in CHECKS:
            continue
        eng, cat, text, note, tech, ref = CHECKS[pid]
        checks.append({
            "property_id": pid,
            "quick_cmd": f"./run {pid} quick",
            "thorough_cmd": f"./run {pid} thorough",
            "evidence_file": f"/verif/evidence/{pid}.json",
            "replay_cmd_template": "./run replay {path}",
            "engine": eng,
            "level_claimed": {"category": cat, "text": text, "design_ref": f"DESIGN.md section {ref}"},
            "level_note": note,
            "technique": tech,
        })
    na = []
    for pid in props:
        if pid not in CHECKS:
            na.append({"property_id": pid, "reason": PENDING.get(pid, "check not built yet in this session (planned, see DESIGN.md section 6); no claim is made until it exists and is silent on the unchanged tree")})
    hooks_commits = subprocess.run(
        ["git", "-C", "/repo", "log", "--format=%H %s"], capture_output=True, text=True
    ).stdout.splitlines()
    hook_shas = [l.split()[0] for l in hooks_commits if "verif hooks" in l]
    used = sorted({CHECKS[p][0] for p in CHECKS})
    m = {
        "version": 1,
        "setup_cmd": "./run setup",
        "hooks": {
            "guard": "deadpool_verif",
            "enable": "RUSTFLAGS=\"--cfg deadpool_verif\" (set by /verif/harness/.cargo/config.toml for every harness build; the repository crates are path dependencies, so each check rebuilds them from /repo's working tree)",
            "baseline_off_cmd": "/verif/tools/baseline_off.sh",
            "source_commits": hook_shas,
            "add_only": True,
        },
        "engines": [
            {"name": e, "path": ENGINES[e][0], "serves_properties": [p for p in props if p in CHECKS and CHECKS[p][0] == e], "kind_free_text": ENGINES[e][1]}
            for e in used
        ],
        "checks": checks,
        "not_applicable": na,
        "notes": "Property-based testing / fuzzing only. Exit codes of every check: 0 held, 1 VIOLATION line printed, 2 inconclusive (build failure or watchdog). Known findings: /verif/known_findings.json. Sensitivity patches: /verif/mutants, /verif/seeded.",
    }
    json.dump(m, open("/verif/MANIFEST.json", "w"), indent=1)
    try:
        import jsonschema
        jsonschema.validate(m, json.load(open("/root/.vp/MANIFEST.schema.json")))
        print("MANIFEST.json valid;", len(checks), "checks,", len(na), "not claimed")
    except ImportError:
        print("jsonschema not importable; written without validation")

if __name__ == "__main__":
    main()
