// shared by all targets (included with include!)
use std::sync::OnceLock;
use vcore::drive::{Ctx, Engine};

fn ctx(default_prop: &str) -> &'static Ctx {
    static CTX: OnceLock<Ctx> = OnceLock::new();
    CTX.get_or_init(|| {
        vcore::sched::install_quiet_panic_hook();
        let prop = std::env::var("VERIF_PROP").unwrap_or_else(|_| default_prop.to_string());
        Ctx::for_prop(&prop, 0)
    })
}

/// run one decoded case with the property's oracle armed; a violation is written
/// as a JSON replay file and turned into a crash
fn judge<E: Engine>(ctx: &Ctx, case: &E::Case) {
    let rep = E::run(ctx, case);
    if let Some(v) = rep.violation {
        let path = vcore::drive::write_external_replay::<E>(ctx, case, &v, "libfuzzer");
        println!("VERIF-FUZZ-VIOLATION property={} replay={}", ctx.prop, path.display());
        std::process::abort();
    }
}
