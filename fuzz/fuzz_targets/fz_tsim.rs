#![no_main]
include!("common.rs");
use libfuzzer_sys::fuzz_target;

fuzz_target!(|data: &[u8]| {
    let ctx = ctx("C10");
    if let Ok(case) = tsim::decode(data) {
        judge::<tsim::Tsim>(ctx, &case);
    }
});
