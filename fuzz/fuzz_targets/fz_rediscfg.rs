#![no_main]
include!("common.rs");
use libfuzzer_sys::fuzz_target;

fuzz_target!(|data: &[u8]| {
    let ctx = ctx("C19");
    let case = cfgx::Case::Redis(cfgx::rds::decode(data));
    judge::<cfgx::Cfgx>(ctx, &case);
});
