#![no_main]
include!("common.rs");
use libfuzzer_sys::fuzz_target;

fuzz_target!(|data: &[u8]| {
    let ctx = ctx("C05");
    if let Ok(case) = usim::decode(data, &ctx.prop) {
        judge::<usim::Usim>(ctx, &case);
    }
});
