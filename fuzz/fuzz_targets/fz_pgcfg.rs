#![no_main]
include!("common.rs");
use libfuzzer_sys::fuzz_target;

fuzz_target!(|data: &[u8]| {
    let ctx = ctx("C18");
    std::env::set_var("USER", "verifuser");
    let case = cfgx::Case::Pg(cfgx::pg::decode(data));
    judge::<cfgx::Cfgx>(ctx, &case);
});
