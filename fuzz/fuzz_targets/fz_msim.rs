#![no_main]
include!("common.rs");
use libfuzzer_sys::fuzz_target;

fuzz_target!(|data: &[u8]| {
    let ctx = ctx("C01");
    if let Ok(case) = msim::decode::case(data, &ctx.prop) {
        judge::<msim::Msim>(ctx, &case);
    }
});
