//! thin binary around the `tsim` library (see lib.rs)

fn main() {
    vcore::main_for::<tsim::Tsim>()
}
