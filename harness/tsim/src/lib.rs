//! E3: virtual-clock interpreter. Serves C10 (timeouts, zero wait, missing runtime).
//!
//! Cases with a runtime run inside `block_on` of a current-thread tokio runtime
//! with a paused clock; futures are polled by hand and every woken future is
//! polled right after every step (as an executor would). `Advance` never jumps
//! over a pending deadline: it stops at each one. Cases without a runtime are
//! polled plainly with no tokio context at all.
//!
//! Oracle: an independent reference model of slot admission (FIFO), idle queue,
//! gated create / recycle calls and their deadlines on the virtual clock.

use std::collections::VecDeque;
use std::future::Future;
use std::panic::{catch_unwind, AssertUnwindSafe};
use std::pin::Pin;
use std::sync::{Arc, Mutex};
use std::task::{Context, Poll, Waker};
use std::time::Duration;

use deadpool::managed::{self, Manager, Metrics, PoolError, RecycleError, RecycleResult, TimeoutType, Timeouts};
use deadpool::{unmanaged, Runtime};
use proptest::prelude::*;
use proptest::strategy::BoxedStrategy;
use serde::{Deserialize, Serialize};
use vcore::drive::{Ctx, Engine, Report, Stage, Tier, Violation};
use vcore::pick;
use vcore::sched::{classify_panic, lock, WakeFlag};

// ------------------------------------------------------------------ case

#[derive(Clone, Copy, Debug, Serialize, Deserialize, PartialEq, Eq, Hash)]
pub enum Tmo {
    None,
    Zero,
    Ms(u16),
    /// below one millisecond: non-zero, due at the next tick of tokio's millisecond timer
    Us(u16),
    /// practically infinite (Duration::MAX): never due within a history
    Huge,
}

impl Tmo {
    fn dur(self) -> Option<Duration> {
        match self {
            Tmo::None => None,
            Tmo::Zero => Some(Duration::ZERO),
            Tmo::Ms(m) => Some(Duration::from_millis(m as u64)),
            Tmo::Us(u) => Some(Duration::from_micros(u.clamp(1, 999) as u64)),
            Tmo::Huge => Some(Duration::MAX),
        }
    }
    fn ms(self) -> Option<u64> {
        match self {
            Tmo::None => None,
            Tmo::Zero => Some(0),
            Tmo::Ms(m) => Some(m as u64),
            // every clock movement is a whole number of milliseconds
            Tmo::Us(_) => Some(1),
            Tmo::Huge => Some(1 << 40),
        }
    }
    fn nonzero(self) -> bool {
        matches!(self, Tmo::Ms(m) if m > 0) || matches!(self, Tmo::Us(_) | Tmo::Huge)
    }
}

#[derive(Clone, Copy, Debug, Serialize, Deserialize, PartialEq, Eq, Hash)]
pub struct T3 {
    pub wait: Tmo,
    pub create: Tmo,
    pub recycle: Tmo,
}

impl T3 {
    fn timeouts(self) -> Timeouts {
        Timeouts {
            wait: self.wait.dur(),
            create: self.create.dur(),
            recycle: self.recycle.dur(),
        }
    }
}

#[derive(Clone, Copy, Debug, Serialize, Deserialize, PartialEq, Eq, Hash)]
pub enum Out {
    Ok,
    Err,
    /// pending until OpenGate, then ok / error
    Gate(bool),
    Never,
}

#[derive(Clone, Copy, Debug, Serialize, Deserialize, PartialEq, Eq, Hash)]
pub enum Step {
    /// pool.get() (pool-level timeouts) or pool.timeout_get(per_call)
    Get { per_call: Option<T3> },
    Advance { ms: u16 },
    /// `lazy`: the woken caller is not polled until a later step (a busy executor)
    OpenGate {
        i: u8,
        #[serde(default)]
        lazy: bool,
    },
    Return {
        h: u8,
        #[serde(default)]
        lazy: bool,
    },
    Close,
}

#[derive(Clone, Debug, Serialize, Deserialize, PartialEq, Eq, Hash)]
pub struct Case {
    pub unmanaged: bool,
    pub runtime: bool,
    pub max_size: u8,
    pub pool_t: T3,
    pub create: Vec<Out>,
    pub recycle: Vec<Out>,
    pub steps: Vec<Step>,
    /// how the managed pool's timeouts reach the builder: 0 timeouts(), 1 the three setters in
    /// the order wait / create / recycle, 2 in the order recycle / create / wait, 3 config()
    #[serde(default)]
    pub via: u8,
    /// instead of the history: on a *real-time* tokio runtime, exhaust the pool and make one
    /// zero-wait call; its first poll must already be the answer (the virtual clock sits on
    /// millisecond boundaries, where a zero-length timer is due at once and hides a wait)
    #[serde(default)]
    pub realtime_zero: bool,
}

// ------------------------------------------------------------------ world

struct GateW {
    open: bool,
    ok: bool,
    never: bool,
    dead: bool,
    waker: Option<Waker>,
}

struct W {
    log: Vec<String>,
    create: Vec<Out>,
    recycle: Vec<Out>,
    n_create: usize,
    n_recycle: usize,
    next_obj: u32,
    destroyed: Vec<bool>,
    detached: Vec<u32>,
    gates: Vec<GateW>,
}

struct World(Mutex<W>);

impl World {
    fn w(&self) -> std::sync::MutexGuard<'_, W> {
        lock(&self.0)
    }
}

struct Obj {
    id: u32,
    world: Arc<World>,
}

impl Drop for Obj {
    fn drop(&mut self) {
        let mut w = self.world.w();
        w.log.push(format!("Destroyed({})", self.id));
        let id = self.id as usize;
        if id < w.destroyed.len() {
            w.destroyed[id] = true;
        }
    }
}

struct GateFut {
    world: Arc<World>,
    gate: usize,
}

impl Future for GateFut {
    type Output = bool;
    fn poll(self: Pin<&mut Self>, cx: &mut Context<'_>) -> Poll<bool> {
        let mut w = self.world.w();
        let g = &mut w.gates[self.gate];
        if g.open {
            Poll::Ready(g.ok)
        } else {
            g.waker = Some(cx.waker().clone());
            Poll::Pending
        }
    }
}

struct GateGuard {
    world: Arc<World>,
    gate: usize,
}

impl Drop for GateGuard {
    fn drop(&mut self) {
        self.world.w().gates[self.gate].dead = true;
    }
}

async fn scripted(world: Arc<World>, out: Out) -> bool {
    match out {
        Out::Ok => true,
        Out::Err => false,
        Out::Gate(_) | Out::Never => {
            let never = matches!(out, Out::Never);
            let ok = if let Out::Gate(ok) = out { ok } else { true };
            let gate = {
                let mut w = world.w();
                w.gates.push(GateW {
                    open: false,
                    ok,
                    never,
                    dead: false,
                    waker: None,
                });
                w.gates.len() - 1
            };
            let _guard = GateGuard {
                world: world.clone(),
                gate,
            };
            GateFut { world, gate }.await
        }
    }
}

struct Mgr {
    world: Arc<World>,
}

#[derive(Debug)]
struct TErr;

impl Manager for Mgr {
    type Type = Obj;
    type Error = TErr;

    fn create(&self) -> impl Future<Output = Result<Obj, TErr>> + Send {
        let world = self.world.clone();
        async move {
            let out = {
                let mut w = world.w();
                let i = w.n_create;
                w.n_create += 1;
                w.log.push(format!("CreateCall({})", i));
                w.create.get(i).copied().unwrap_or(Out::Ok)
            };
            if scripted(world.clone(), out).await {
                let mut w = world.w();
                let id = w.next_obj;
                w.next_obj += 1;
                w.destroyed.push(false);
                w.detached.push(0);
                w.log.push(format!("Created({})", id));
                drop(w);
                Ok(Obj { id, world })
            } else {
                world.w().log.push("CreateErr".into());
                Err(TErr)
            }
        }
    }

    fn recycle(&self, obj: &mut Obj, _: &Metrics) -> impl Future<Output = RecycleResult<TErr>> + Send {
        let world = self.world.clone();
        let id = obj.id;
        async move {
            let out = {
                let mut w = world.w();
                let i = w.n_recycle;
                w.n_recycle += 1;
                w.log.push(format!("RecycleCall({}, obj {})", i, id));
                w.recycle.get(i).copied().unwrap_or(Out::Ok)
            };
            if scripted(world.clone(), out).await {
                world.w().log.push(format!("RecycleOk({})", id));
                Ok(())
            } else {
                world.w().log.push(format!("RecycleErr({})", id));
                Err(RecycleError::message("scripted"))
            }
        }
    }

    fn detach(&self, obj: &mut Obj) {
        let mut w = self.world.w();
        w.log.push(format!("Detach({})", obj.id));
        let id = obj.id as usize;
        if id < w.detached.len() {
            w.detached[id] += 1;
        }
    }
}

// ------------------------------------------------------------------ model

#[derive(Clone, Debug, PartialEq, Eq)]
enum Res {
    Ok(u32),
    TimeoutWait,
    TimeoutCreate,
    Closed,
    NoRuntime,
    Backend,
    /// unmanaged flavours
    UTimeout,
}

fn kind(r: &Option<Res>) -> &'static str {
    match r {
        None => "pending",
        Some(Res::Ok(_)) => "Ok",
        Some(Res::TimeoutWait) => "TimeoutWait",
        Some(Res::TimeoutCreate) => "TimeoutCreate",
        Some(Res::Closed) => "Closed",
        Some(Res::NoRuntime) => "NoRuntime",
        Some(Res::Backend) => "Backend",
        Some(Res::UTimeout) => "UTimeout",
    }
}

/// The virtual-clock interpreter also serves as a stage of other properties' checks (calls that
/// time out are part of their quantifiers). There only the deviations that contradict *that*
/// property's statement count; everything else is C10's business and ends the case unjudged.
fn relevant(prop: &str, oracle: &str, o: &Outcome) -> bool {
    let closed_involved = o.closed || matches!(o.pair, Some((a, b)) if a == "Closed" || b == "Closed");
    match prop {
        "C10" => true,
        // more objects than max_size
        "C01" => matches!(oracle, "too-many-live-objects" | "capacity-surplus-at-rest"),
        // capacity lost / a slot kept by a call that timed out; get() never panics
        "C02" => matches!(oracle, "slot-not-released" | "panic" | "capacity-lost-at-rest" | "capacity-surplus-at-rest"),
        "C03" => matches!(oracle, "slot-not-released" | "object-fate-mismatch" | "destroyed-without-single-detach" | "capacity-lost-at-rest"),
        // rejected (timed-out) objects are discarded and never handed out; documented errors only
        "C04" => matches!(oracle, "object-fate-mismatch" | "undocumented-error" | "destroyed-without-single-detach") || (oracle == "timing-model-mismatch" && o.other_object),
        // waiters and later callers get Closed, the closed pool keeps nothing
        "C06" => (oracle == "timing-model-mismatch" && closed_involved) || (oracle == "object-fate-mismatch" && o.closed),
        // unmanaged: never a panic, Closed after close()
        "C12" => matches!(oracle, "panic" | "undocumented-error") || (oracle == "timing-model-mismatch" && closed_involved),
        "C05" => matches!(oracle, "try-add-failed"),
        _ => true,
    }
}

#[derive(Clone, Debug, PartialEq, Eq)]
enum Phase {
    /// a slot was handed to this waiter but it has not been polled since
    Granted,
    Waiting { deadline: Option<u64> },
    Creating { deadline: Option<u64>, gate: usize },
    Recycling { deadline: Option<u64>, gate: usize, obj: u32 },
    Done(Res),
}

#[derive(Clone, Debug)]
struct MGet {
    t: T3,
    phase: Phase,
}

#[derive(Clone)]
struct MGate {
    get: usize,
    ok: bool,
    never: bool,
    dead: bool,
    /// opened, but the caller has not been polled since
    opened: bool,
}

#[derive(Clone)]
struct Model {
    runtime: bool,
    max: usize,
    now: u64,
    in_use: usize,
    idle: VecDeque<u32>,
    waiters: VecDeque<usize>,
    gets: Vec<MGet>,
    gates: Vec<MGate>,
    create: Vec<Out>,
    recycle: Vec<Out>,
    n_create: usize,
    n_recycle: usize,
    next_obj: u32,
    closed: bool,
    /// objects the model expects to have been destroyed (rejected)
    destroyed: Vec<u32>,
    /// a situation the statement leaves open was met: stop judging this case
    unspecified: Option<String>,
    /// deadline raced a completion within one clock step
    close_calls: bool,
}

impl Model {
    fn start_get(&mut self, t: T3) -> usize {
        let g = self.gets.len();
        self.gets.push(MGet {
            t,
            phase: Phase::Waiting { deadline: None },
        });
        if !self.runtime && t.wait.nonzero() {
            self.gets[g].phase = Phase::Done(Res::NoRuntime);
            return g;
        }
        if self.closed {
            self.gets[g].phase = Phase::Done(Res::Closed);
            return g;
        }
        if self.in_use < self.max && self.waiters.is_empty() {
            self.in_use += 1;
            self.proceed(g);
        } else {
            match t.wait {
                Tmo::Zero => self.gets[g].phase = Phase::Done(Res::TimeoutWait),
                Tmo::Ms(0) => self.gets[g].phase = Phase::Done(Res::TimeoutWait),
                Tmo::None => {
                    self.gets[g].phase = Phase::Waiting { deadline: None };
                    self.waiters.push_back(g);
                }
                Tmo::Ms(_) | Tmo::Us(_) | Tmo::Huge => {
                    let m = t.wait.ms().unwrap_or(1);
                    self.gets[g].phase = Phase::Waiting {
                        deadline: Some(self.now + m),
                    };
                    self.waiters.push_back(g);
                }
            }
        }
        g
    }

    fn release_slot(&mut self) {
        self.in_use -= 1;
        self.grant();
    }

    /// a freed slot goes to the first waiter at once (fair semaphore); what the waiter
    /// does with it happens when it is polled (`poll_woken`)
    fn grant(&mut self) {
        while self.in_use < self.max && !self.closed {
            let Some(g) = self.waiters.pop_front() else { break };
            self.in_use += 1;
            self.gets[g].phase = Phase::Granted;
        }
    }

    /// the executor polls every woken caller, in index order, until nothing is woken
    fn poll_woken(&mut self) {
        for _ in 0..64 {
            let mut progressed = false;
            for g in 0..self.gets.len() {
                match self.gets[g].phase.clone() {
                    Phase::Granted => {
                        progressed = true;
                        self.proceed(g);
                    }
                    Phase::Creating { gate, .. } | Phase::Recycling { gate, .. } if self.gates[gate].opened && !self.gates[gate].dead => {
                        progressed = true;
                        self.complete_gate(gate);
                    }
                    Phase::Waiting { deadline: Some(d) } | Phase::Creating { deadline: Some(d), .. } | Phase::Recycling { deadline: Some(d), .. }
                        if d <= self.now =>
                    {
                        progressed = true;
                        self.time_out(g);
                    }
                    _ => {}
                }
                if self.unspecified.is_some() {
                    return;
                }
            }
            if !progressed {
                break;
            }
        }
    }

    /// getter g holds a slot: try idle objects, then create
    fn proceed(&mut self, g: usize) {
        let t = self.gets[g].t;
        loop {
            if let Some(obj) = self.idle.pop_front() {
                if !self.runtime && t.recycle.ms().is_some() {
                    if t.recycle.nonzero() {
                        // must be reported, and the idle object must survive
                        self.idle.push_front(obj);
                        self.in_use -= 1;
                        self.gets[g].phase = Phase::Done(Res::NoRuntime);
                        self.grant();
                        return;
                    }
                    self.unspecified = Some("zero recycle timeout without a runtime".into());
                    return;
                }
                let i = self.n_recycle;
                self.n_recycle += 1;
                let out = self.recycle.get(i).copied().unwrap_or(Out::Ok);
                match out {
                    Out::Ok => {
                        self.gets[g].phase = Phase::Done(Res::Ok(obj));
                        return;
                    }
                    Out::Err => {
                        self.destroyed.push(obj);
                        if self.rivals_runnable(g) {
                            return;
                        }
                        continue;
                    }
                    Out::Gate(ok) => {
                        self.gates.push(MGate { get: g, ok, never: false, dead: false, opened: false });
                        let gate = self.gates.len() - 1;
                        if t.recycle.ms() == Some(0) {
                            // polled once, pending, deadline already over
                            self.gates[gate].dead = true;
                            self.destroyed.push(obj);
                            if self.rivals_runnable(g) {
                                return;
                            }
                            continue;
                        }
                        self.gets[g].phase = Phase::Recycling {
                            deadline: t.recycle.ms().map(|m| self.now + m),
                            gate,
                            obj,
                        };
                        return;
                    }
                    Out::Never => {
                        self.gates.push(MGate { get: g, ok: true, never: true, dead: false, opened: false });
                        let gate = self.gates.len() - 1;
                        if t.recycle.ms() == Some(0) {
                            self.gates[gate].dead = true;
                            self.destroyed.push(obj);
                            if self.rivals_runnable(g) {
                                return;
                            }
                            continue;
                        }
                        self.gets[g].phase = Phase::Recycling {
                            deadline: t.recycle.ms().map(|m| self.now + m),
                            gate,
                            obj,
                        };
                        return;
                    }
                }
            } else {
                if self.closed {
                    // the caller still holds its slot although the pool has been closed in the
                    // meantime (its recycling failed afterwards): no statement says whether it
                    // creates a last object or reports Closed
                    self.unspecified = Some("a caller holding a slot reaches creation on a closed pool".into());
                    return;
                }
                if !self.runtime && t.create.ms().is_some() {
                    if t.create.nonzero() {
                        self.gets[g].phase = Phase::Done(Res::NoRuntime);
                        self.release_slot();
                        return;
                    }
                    self.unspecified = Some("zero create timeout without a runtime".into());
                    return;
                }
                let i = self.n_create;
                self.n_create += 1;
                let out = self.create.get(i).copied().unwrap_or(Out::Ok);
                match out {
                    Out::Ok => {
                        let id = self.next_obj;
                        self.next_obj += 1;
                        self.gets[g].phase = Phase::Done(Res::Ok(id));
                        return;
                    }
                    Out::Err => {
                        self.gets[g].phase = Phase::Done(Res::Backend);
                        self.release_slot();
                        return;
                    }
                    Out::Gate(_) | Out::Never => {
                        let (ok, never) = match out {
                            Out::Gate(ok) => (ok, false),
                            _ => (true, true),
                        };
                        self.gates.push(MGate { get: g, ok, never, dead: false, opened: false });
                        let gate = self.gates.len() - 1;
                        if t.create.ms() == Some(0) {
                            self.gates[gate].dead = true;
                            self.gets[g].phase = Phase::Done(Res::TimeoutCreate);
                            self.release_slot();
                            return;
                        }
                        self.gets[g].phase = Phase::Creating {
                            deadline: t.create.ms().map(|m| self.now + m),
                            gate,
                        };
                        return;
                    }
                }
            }
        }
    }

    /// After a rejected idle object the caller goes on to the next one. An implementation may
    /// yield to the executor in between; if another caller is runnable at that moment, which
    /// of them pops the next idle object (or creates) first is up to the executor.
    fn rivals_runnable(&mut self, g: usize) -> bool {
        let now = self.now;
        let rival = (0..self.gets.len()).any(|o| {
            o != g
                && (matches!(self.gets[o].phase, Phase::Granted)
                    // a deadline that is due frees a slot (or moves on) in this very round
                    || matches!(
                        self.gets[o].phase,
                        Phase::Waiting { deadline: Some(d) } | Phase::Creating { deadline: Some(d), .. } | Phase::Recycling { deadline: Some(d), .. }
                        if d <= now
                    )
                    || (self.gate_opened(&self.gets[o].phase)
                        && match self.gets[o].phase {
                            Phase::Creating { gate, .. } | Phase::Recycling { gate, .. } => !self.gates[gate].dead,
                            _ => false,
                        }))
        });
        if rival {
            self.unspecified = Some("a rejected object while another caller is runnable: the order of their next steps is the executor's".into());
        }
        rival
    }

    fn closed_gates(&self) -> Vec<usize> {
        self.gates
            .iter()
            .enumerate()
            .filter(|(_, g)| !g.dead && !g.never && !g.opened)
            .map(|(i, _)| i)
            .collect()
    }

    fn open_gate(&mut self, gate: usize) {
        self.gates[gate].opened = true;
    }

    fn complete_gate(&mut self, gate: usize) {
        let (g, ok) = (self.gates[gate].get, self.gates[gate].ok);
        self.gates[gate].dead = true;
        match self.gets[g].phase.clone() {
            Phase::Creating { .. } => {
                if ok {
                    let id = self.next_obj;
                    self.next_obj += 1;
                    self.gets[g].phase = Phase::Done(Res::Ok(id));
                } else {
                    self.gets[g].phase = Phase::Done(Res::Backend);
                    self.release_slot();
                }
            }
            Phase::Recycling { obj, .. } => {
                if ok {
                    self.gets[g].phase = Phase::Done(Res::Ok(obj));
                } else {
                    self.destroyed.push(obj);
                    if !self.rivals_runnable(g) {
                        self.proceed(g);
                    }
                }
            }
            _ => {}
        }
    }

    fn gate_opened(&self, p: &Phase) -> bool {
        match p {
            Phase::Creating { gate, .. } | Phase::Recycling { gate, .. } => self.gates[*gate].opened,
            _ => false,
        }
    }

    fn next_deadline(&self) -> Option<u64> {
        self.gets
            .iter()
            .filter_map(|g| match g.phase {
                // a completion that is already there wins over the deadline whenever the caller is polled
                Phase::Creating { .. } | Phase::Recycling { .. } if self.gate_opened(&g.phase) => None,
                Phase::Waiting { deadline } | Phase::Creating { deadline, .. } | Phase::Recycling { deadline, .. } => deadline,
                _ => None,
            })
            .min()
    }

    /// the clock reached `self.now`: expire what is due. Returns false on a tie
    /// between two different getters (outcome order not defined).
    fn expire(&mut self) -> bool {
        let due: Vec<usize> = self
            .gets
            .iter()
            .enumerate()
            .filter(|(_, g)| match g.phase {
                Phase::Creating { .. } | Phase::Recycling { .. } if self.gate_opened(&g.phase) => false,
                Phase::Waiting { deadline } | Phase::Creating { deadline, .. } | Phase::Recycling { deadline, .. } => {
                    deadline.map(|d| d <= self.now).unwrap_or(false)
                }
                _ => false,
            })
            .map(|(i, _)| i)
            .collect();
        if due.len() > 1 {
            return false;
        }
        // a caller that was woken but not polled yet may free a slot at this very instant:
        // whether a waiter whose deadline is now still gets it is not defined
        let lazies = self.gets.iter().any(|g| matches!(g.phase, Phase::Granted) || self.gate_opened(&g.phase));
        if lazies && due.iter().any(|g| matches!(self.gets[*g].phase, Phase::Waiting { .. })) {
            return false;
        }
        // the actions themselves happen in poll_woken, in the order the executor polls
        true
    }

    /// the deadline of caller g has passed and it is being polled
    fn time_out(&mut self, g: usize) {
        match self.gets[g].phase.clone() {
            Phase::Waiting { .. } => {
                self.waiters.retain(|x| *x != g);
                self.gets[g].phase = Phase::Done(Res::TimeoutWait);
            }
            Phase::Creating { gate, .. } => {
                self.gates[gate].dead = true;
                self.gets[g].phase = Phase::Done(Res::TimeoutCreate);
                self.release_slot();
            }
            Phase::Recycling { gate, obj, .. } => {
                self.gates[gate].dead = true;
                self.destroyed.push(obj);
                if !self.rivals_runnable(g) {
                    self.proceed(g);
                }
            }
            Phase::Done(_) | Phase::Granted => {}
        }
    }

    fn ret(&mut self, obj: u32) {
        if self.closed {
            self.destroyed.push(obj);
            self.in_use -= 1;
            return;
        }
        self.idle.push_back(obj);
        self.release_slot();
    }

    fn close(&mut self) {
        self.closed = true;
        for o in self.idle.drain(..) {
            self.destroyed.push(o);
        }
        for g in self.waiters.drain(..).collect::<Vec<_>>() {
            self.gets[g].phase = Phase::Done(Res::Closed);
        }
        // a waiter that was handed a slot but has not been polled since finds the semaphore closed
        for g in 0..self.gets.len() {
            if self.gets[g].phase == Phase::Granted {
                self.gets[g].phase = Phase::Done(Res::Closed);
                self.in_use -= 1;
            }
        }
    }
}

// ------------------------------------------------------------------ interpreter (managed)

type GetFut = Pin<Box<dyn Future<Output = Result<managed::Object<Mgr>, PoolError<TErr>>> + Send>>;

struct RGet {
    fut: Option<GetFut>,
    flag: Arc<WakeFlag>,
    done: Option<Res>,
    first_poll_pending_zero_wait: bool,
}

fn res_of(r: &Result<managed::Object<Mgr>, PoolError<TErr>>) -> Result<Res, String> {
    Ok(match r {
        Ok(o) => Res::Ok(o.id),
        Err(PoolError::Timeout(TimeoutType::Wait)) => Res::TimeoutWait,
        Err(PoolError::Timeout(TimeoutType::Create)) => Res::TimeoutCreate,
        Err(PoolError::Timeout(TimeoutType::Recycle)) => return Err("Timeout(Recycle) returned by get()".into()),
        Err(PoolError::Closed) => Res::Closed,
        Err(PoolError::NoRuntimeSpecified) => Res::NoRuntime,
        Err(PoolError::Backend(_)) => Res::Backend,
        Err(PoolError::PostCreateHook(_)) => return Err("PostCreateHook error without hooks".into()),
    })
}

struct Outcome {
    violation: Option<(String, String)>,
    /// for a result mismatch: (what the pool answered, what the model expects), as kinds
    pair: Option<(&'static str, &'static str)>,
    /// both answers were objects, but different ones
    other_object: bool,
    /// the pool had been closed when the violation was seen
    closed: bool,
    labels: Vec<String>,
    nontrivial: bool,
    trace: Vec<String>,
    step: usize,
}

/// see `Case::realtime_zero`
fn run_realtime_zero(case: &Case) -> Outcome {
    let mut out = Outcome {
        violation: None,
        pair: None,
        other_object: false,
        closed: false,
        labels: vec!["realtime-zero-wait".into()],
        nontrivial: true,
        trace: vec![],
        step: 0,
    };
    let rt = match tokio::runtime::Builder::new_current_thread().enable_time().build() {
        Ok(rt) => rt,
        Err(_) => return out,
    };
    let n = case.max_size.max(1) as usize;
    let per_call = matches!(case.pool_t.wait, Tmo::Zero) == false;
    let waker = Waker::from(WakeFlag::new());
    let mut cx = Context::from_waker(&waker);
    let r = catch_unwind(AssertUnwindSafe(|| {
        let _ctx = rt.enter();
        if case.unmanaged {
            let pool: unmanaged::Pool<u32> = unmanaged::Pool::from_config(&unmanaged::PoolConfig {
                max_size: n,
                timeout: if per_call { None } else { Some(Duration::ZERO) },
                runtime: Some(Runtime::Tokio1),
            });
            // empty pool: nothing to get
            let mut fut: Pin<Box<dyn Future<Output = Result<unmanaged::Object<u32>, unmanaged::PoolError>>>> = if per_call {
                let p = pool.clone();
                Box::pin(async move { p.timeout_get(Some(Duration::ZERO)).await })
            } else {
                let p = pool.clone();
                Box::pin(async move { p.get().await })
            };
            match fut.as_mut().poll(&mut cx) {
                Poll::Ready(Err(unmanaged::PoolError::Timeout)) => None,
                Poll::Ready(other) => Some(format!("unmanaged zero-wait get on an empty pool answered {:?}", other.map(|_| "an object"))),
                Poll::Pending => Some("unmanaged get with a zero timeout on an empty pool is pending after its first poll".to_string()),
            }
        } else {
            let world = Arc::new(World(Mutex::new(W {
                log: vec![],
                create: vec![],
                recycle: vec![],
                n_create: 0,
                n_recycle: 0,
                next_obj: 0,
                destroyed: vec![],
                detached: vec![],
                gates: vec![],
            })));
            let mut b = managed::Pool::<Mgr>::builder(Mgr { world }).max_size(n).runtime(Runtime::Tokio1);
            if !per_call {
                b = b.wait_timeout(Some(Duration::ZERO));
            }
            let pool = match b.build() {
                Ok(p) => p,
                Err(e) => return Some(format!("build failed: {:?}", e)),
            };
            let mut held = vec![];
            for _ in 0..n {
                // with a zero pool-level wait these still succeed: slots are free
                match rt.block_on(pool.get()) {
                    Ok(o) => held.push(o),
                    Err(e) => return Some(format!("get on a pool with free slots failed: {:?}", e)),
                }
            }
            let p = pool.clone();
            let mut fut: GetFut = if per_call {
                let t = Timeouts { wait: Some(Duration::ZERO), create: None, recycle: None };
                Box::pin(async move { p.timeout_get(&t).await })
            } else {
                Box::pin(async move { p.get().await })
            };
            let r = match fut.as_mut().poll(&mut cx) {
                Poll::Ready(Err(PoolError::Timeout(TimeoutType::Wait))) => None,
                Poll::Ready(Ok(_)) => Some("zero-wait get on an exhausted pool returned an object".to_string()),
                Poll::Ready(Err(e)) => Some(format!("zero-wait get on an exhausted pool answered {:?}", e)),
                Poll::Pending => Some("get with a zero wait timeout on an exhausted pool is pending after its first poll: it waits".to_string()),
            };
            drop(fut);
            drop(held);
            r
        }
    }));
    match r {
        Ok(None) => {}
        Ok(Some(detail)) => out.violation = Some(("zero-wait-get-waits".into(), detail)),
        Err(p) => out.violation = Some(("panic".into(), format!("a pool call panicked: {:?}", classify_panic(p)))),
    }
    out
}

fn run_managed(case: &Case) -> Outcome {
    let world = Arc::new(World(Mutex::new(W {
        log: vec![],
        create: case.create.clone(),
        recycle: case.recycle.clone(),
        n_create: 0,
        n_recycle: 0,
        next_obj: 0,
        destroyed: vec![],
        detached: vec![],
        gates: vec![],
    })));
    let mut out = Outcome {
        violation: None,
        pair: None,
        other_object: false,
        closed: false,
        labels: vec![],
        nontrivial: false,
        trace: vec![],
        step: 0,
    };
    let rt = if case.runtime {
        Some(
            tokio::runtime::Builder::new_current_thread()
                .enable_time()
                .start_paused(true)
                .build()
                .expect("runtime"),
        )
    } else {
        None
    };
    let body = run_managed_body(case, world.clone(), &mut out);
    // drive the body: it only ever awaits tokio::time::advance
    let r = catch_unwind(AssertUnwindSafe(|| match &rt {
        Some(rt) => rt.block_on(body),
        None => {
            // no tokio context at all: the body never awaits anything that is pending
            let waker = Waker::from(WakeFlag::new());
            let mut cx = Context::from_waker(&waker);
            let mut body = Box::pin(body);
            match body.as_mut().poll(&mut cx) {
                Poll::Ready(()) => {}
                Poll::Pending => panic!("harness: body pending without a runtime"),
            }
        }
    }));
    if let Err(p) = r {
        let pk = classify_panic(p);
        if out.violation.is_none() {
            out.violation = Some(("panic".into(), format!("a pool call panicked: {:?}", pk)));
        }
    }
    out.trace = world.w().log.clone();
    out
}

/// Model-free run of a managed history with a runtime: the steps are driven by the real pool
/// alone (gates are picked among the gates that exist, the clock moves in 1 ms ticks), only
/// invariants that need no timing model are judged - never more live objects than max_size, an
/// object the live pool destroys was detached exactly once - and at the end, with every gate
/// open, every object returned and every deadline long past, the pool must offer exactly its
/// capacity again. Used by the checks that borrow this interpreter for their "timed-out calls"
/// clause, where a pure timing deviation is not theirs to judge.
fn run_managed_free(case: &Case, prop: &str) -> Outcome {
    let world = Arc::new(World(Mutex::new(W {
        log: vec![],
        create: case.create.clone(),
        recycle: case.recycle.clone(),
        n_create: 0,
        n_recycle: 0,
        next_obj: 0,
        destroyed: vec![],
        detached: vec![],
        gates: vec![],
    })));
    let mut out = Outcome {
        violation: None,
        pair: None,
        other_object: false,
        closed: false,
        labels: vec!["free-run".into()],
        nontrivial: false,
        trace: vec![],
        step: 0,
    };
    let Ok(rt) = tokio::runtime::Builder::new_current_thread().enable_time().start_paused(true).build() else {
        return out;
    };
    let w2 = world.clone();
    let r = catch_unwind(AssertUnwindSafe(|| rt.block_on(free_body(case, w2, &mut out, prop))));
    if let Err(p) = r {
        if out.violation.is_none() {
            out.violation = Some(("panic".into(), format!("a pool call panicked: {:?}", classify_panic(p))));
        }
    }
    out.trace = world.w().log.clone();
    out
}

async fn free_body(case: &Case, world: Arc<World>, out: &mut Outcome, prop: &str) {
    let max = case.max_size as usize;
    let pool = match managed::Pool::<Mgr>::builder(Mgr { world: world.clone() })
        .max_size(max)
        .timeouts(case.pool_t.timeouts())
        .runtime(Runtime::Tokio1)
        .build()
    {
        Ok(p) => p,
        Err(_) => return,
    };
    struct FGet {
        fut: Option<GetFut>,
        flag: Arc<WakeFlag>,
    }
    let mut gets: Vec<FGet> = vec![];
    let mut held: Vec<managed::Object<Mgr>> = vec![];
    let mut closed = false;
    macro_rules! settle {
        () => {{
            for _round in 0..64 {
                let mut progressed = false;
                for gi in 0..gets.len() {
                    if gets[gi].fut.is_none() || !gets[gi].flag.is_set() {
                        continue;
                    }
                    let _ = gets[gi].flag.take();
                    let Some(mut fut) = gets[gi].fut.take() else { continue };
                    let waker = Waker::from(gets[gi].flag.clone());
                    let mut cx = Context::from_waker(&waker);
                    progressed = true;
                    match fut.as_mut().poll(&mut cx) {
                        Poll::Pending => gets[gi].fut = Some(fut),
                        Poll::Ready(r) => {
                            drop(fut);
                            if let Ok(o) = r {
                                held.push(o);
                            }
                        }
                    }
                }
                if !progressed {
                    break;
                }
            }
        }};
    }
    macro_rules! invariants {
        ($at:expr) => {{
            let (wd, wdet) = {
                let w = world.w();
                (w.destroyed.clone(), w.detached.clone())
            };
            // (an invariant that is not the business of the property at hand does not end the run:
            // its consequences for that property may only show later)
            for (id, d) in wd.iter().enumerate() {
                if *d && wdet[id] != 1 && relevant(prop, "destroyed-without-single-detach", out) {
                    out.violation = Some((
                        "destroyed-without-single-detach".into(),
                        format!("{}: object {} was destroyed by the live pool with {} detach calls", $at, id, wdet[id]),
                    ));
                    return;
                }
            }
            let live = wd.iter().filter(|d| !**d).count();
            if !relevant(prop, "too-many-live-objects", out) {
                // not judged here
            } else if live > max {
                out.violation = Some(("too-many-live-objects".into(), format!("{}: {} objects are alive, max_size is {}", $at, live, max)));
                return;
            }
            if held.len() > max {
                out.violation = Some(("too-many-live-objects".into(), format!("{}: {} callers hold an object, max_size is {}", $at, held.len(), max)));
                return;
            }
        }};
    }
    for (si, step) in case.steps.iter().enumerate() {
        out.step = si;
        match *step {
            Step::Get { per_call } => {
                if gets.iter().filter(|g| g.fut.is_some()).count() >= 6 {
                    continue;
                }
                let p2 = pool.clone();
                let fut: GetFut = match per_call {
                    Some(t3) => {
                        let to = t3.timeouts();
                        Box::pin(async move { p2.timeout_get(&to).await })
                    }
                    None => Box::pin(async move { p2.get().await }),
                };
                let flag = WakeFlag::new();
                flag.woken.store(true, std::sync::atomic::Ordering::SeqCst);
                gets.push(FGet { fut: Some(fut), flag });
                settle!();
            }
            Step::Advance { ms } => {
                for _ in 0..ms {
                    tokio::time::advance(Duration::from_millis(1)).await;
                    settle!();
                }
            }
            Step::OpenGate { i, .. } => {
                let waker = {
                    let mut w = world.w();
                    let closed_gates: Vec<usize> = w.gates.iter().enumerate().filter(|(_, g)| !g.dead && !g.open && !g.never).map(|(k, _)| k).collect();
                    let Some(k) = pick(i, closed_gates.len()) else { continue };
                    let gate = closed_gates[k];
                    w.gates[gate].open = true;
                    w.gates[gate].waker.take()
                };
                if let Some(wk) = waker {
                    wk.wake();
                }
                settle!();
            }
            Step::Return { h, .. } => {
                let Some(i) = pick(h, held.len()) else { continue };
                drop(held.remove(i));
                settle!();
            }
            Step::Close => {
                pool.close();
                closed = true;
                settle!();
            }
        }
        invariants!("after a step");
    }
    // ---- wrap up: open every gate that can open, give everything back, let every deadline pass
    for _ in 0..8 {
        let wakers: Vec<Waker> = {
            let mut w = world.w();
            let mut v = vec![];
            for g in w.gates.iter_mut() {
                if !g.dead && !g.open && !g.never {
                    g.open = true;
                    if let Some(wk) = g.waker.take() {
                        v.push(wk);
                    }
                }
            }
            v
        };
        for wk in wakers {
            wk.wake();
        }
        settle!();
        held.clear();
        settle!();
        for _ in 0..120 {
            tokio::time::advance(Duration::from_millis(1)).await;
            settle!();
        }
    }
    held.clear();
    settle!();
    invariants!("after the wrap-up");
    let pending = gets.iter().filter(|g| g.fut.is_some()).count();
    if !closed && pending == 0 {
        out.labels.push("free-run:capacity-probe".into());
        let sn = pool.verif_snapshot();
        if sn.permits < max {
            out.violation = Some((
                "capacity-lost-at-rest".into(),
                format!("with every object returned, every gate open and no call pending the pool offers {} of {} slots ({:?})", sn.permits, max, sn),
            ));
            return;
        }
        if sn.permits > max {
            out.violation = Some((
                "capacity-surplus-at-rest".into(),
                format!("with every object returned and no call pending the pool offers {} slots, max_size is {} ({:?})", sn.permits, max, sn),
            ));
            return;
        }
    }
    drop(gets);
}

async fn run_managed_body(case: &Case, world: Arc<World>, out: &mut Outcome) {
    macro_rules! fail {
        ($o:expr, $($a:tt)*) => {{
            if out.violation.is_none() {
                out.violation = Some(($o.to_string(), format!($($a)*)));
            }
            return;
        }};
    }
    let max = case.max_size as usize;
    // ---- build
    let b0 = managed::Pool::<Mgr>::builder(Mgr { world: world.clone() });
    let pt = case.pool_t.timeouts();
    let mut b = match case.via % 4 {
        0 => b0.max_size(max).timeouts(pt),
        1 => b0.max_size(max).wait_timeout(pt.wait).create_timeout(pt.create).recycle_timeout(pt.recycle),
        2 => b0.recycle_timeout(pt.recycle).create_timeout(pt.create).wait_timeout(pt.wait).max_size(max),
        _ => b0.config(managed::PoolConfig {
            max_size: max,
            timeouts: pt,
            queue_mode: Default::default(),
        }),
    };
    out.labels.push(format!("build-via:{}", case.via % 4));
    if case.runtime {
        b = b.runtime(Runtime::Tokio1);
    }
    let any_nonzero = case.pool_t.wait.nonzero() || case.pool_t.create.nonzero() || case.pool_t.recycle.nonzero();
    let any_some = case.pool_t.wait.ms().is_some() || case.pool_t.create.ms().is_some() || case.pool_t.recycle.ms().is_some();
    let pool = match b.build() {
        Ok(p) => {
            if !case.runtime && any_nonzero {
                fail!("build-accepted-timeouts-without-runtime", "build() succeeded although non-zero timeouts {:?} are configured without a runtime", case.pool_t);
            }
            p
        }
        Err(e) => {
            if case.runtime || !any_some {
                fail!("build-failed", "build() failed with {:?} (runtime {}, timeouts {:?})", e, case.runtime, case.pool_t);
            }
            out.labels.push("build:NoRuntimeSpecified".into());
            out.nontrivial = any_nonzero;
            return;
        }
    };
    if pool.timeouts().wait != case.pool_t.wait.dur() || pool.timeouts().create != case.pool_t.create.dur() || pool.timeouts().recycle != case.pool_t.recycle.dur() {
        fail!("timeouts-not-kept", "pool.timeouts() is {:?}, configured {:?}", pool.timeouts(), case.pool_t);
    }
    let mut model = Model {
        runtime: case.runtime,
        max,
        now: 0,
        in_use: 0,
        idle: VecDeque::new(),
        waiters: VecDeque::new(),
        gets: vec![],
        gates: vec![],
        create: case.create.clone(),
        recycle: case.recycle.clone(),
        n_create: 0,
        n_recycle: 0,
        next_obj: 0,
        closed: false,
        destroyed: vec![],
        unspecified: None,
        close_calls: false,
    };
    let mut gets: Vec<RGet> = vec![];
    let mut held: Vec<managed::Object<Mgr>> = vec![];

    // poll every woken future until nothing is woken; compare with the model
    macro_rules! settle {
        () => {{
            for _round in 0..64 {
                let mut progressed = false;
                for gi in 0..gets.len() {
                    if gets[gi].done.is_some() || !gets[gi].flag.is_set() {
                        continue;
                    }
                    let _ = gets[gi].flag.take();
                    let Some(mut fut) = gets[gi].fut.take() else { continue };
                    let waker = Waker::from(gets[gi].flag.clone());
                    let mut cx = Context::from_waker(&waker);
                    progressed = true;
                    match fut.as_mut().poll(&mut cx) {
                        Poll::Pending => gets[gi].fut = Some(fut),
                        Poll::Ready(r) => {
                            drop(fut);
                            match res_of(&r) {
                                Ok(res) => gets[gi].done = Some(res),
                                Err(e) => fail!("undocumented-error", "get #{}: {}", gi, e),
                            }
                            if let Ok(o) = r {
                                held.push(o);
                            }
                        }
                    }
                }
                if !progressed {
                    break;
                }
            }
        }};
    }
    macro_rules! compare {
        ($at:expr) => {{
            // model-free first: whatever the timing, an object the live pool lets go of is detached
            // exactly once, and never more than max_size objects are alive
            {
                let (wd0, wdet0) = {
                    let w = world.w();
                    (w.destroyed.clone(), w.detached.clone())
                };
                for (id, d) in wd0.iter().enumerate() {
                    if *d && wdet0[id] != 1 {
                        let det = wdet0[id];
                        fail!("destroyed-without-single-detach", "{} (clock {} ms): object {} was destroyed with {} detach calls", $at, model.now, id, det);
                    }
                }
                let live = wd0.iter().filter(|d| !**d).count();
                if live > max {
                    fail!("too-many-live-objects", "{} (clock {} ms): {} objects are alive, max_size is {}", $at, model.now, live, max);
                }
            }
            if model.unspecified.is_some() {
                out.labels.push("unspecified-situation".into());
                return;
            }
            for gi in 0..gets.len() {
                let real = gets[gi].done.clone();
                let want = match &model.gets[gi].phase {
                    Phase::Done(r) => Some(r.clone()),
                    _ => None,
                };
                if real != want {
                    let phase = model.gets[gi].phase.clone();
                    out.pair = Some((kind(&real), kind(&want)));
                    out.other_object = matches!((&real, &want), (Some(Res::Ok(a)), Some(Res::Ok(b))) if a != b);
                    out.closed = model.closed;
                    fail!(
                        "timing-model-mismatch",
                        "{} (clock {} ms): get #{} with timeouts {:?} is {:?} but the reference model says {:?}",
                        $at, model.now, gi, model.gets[gi].t, real, phase
                    );
                }
            }
            // rejected objects are destroyed and detached once, nothing else is
            let (wd, wdet) = {
                let w = world.w();
                (w.destroyed.clone(), w.detached.clone())
            };
            out.closed = model.closed;
            let live = wd.iter().filter(|d| !**d).count();
            if live > max {
                fail!("too-many-live-objects", "{} (clock {} ms): {} objects are alive, max_size is {}", $at, model.now, live, max);
            }
            for (id, d) in wd.iter().enumerate() {
                let expect = model.destroyed.contains(&(id as u32));
                if *d != expect {
                    let det = wdet[id];
                    fail!(
                        "object-fate-mismatch",
                        "{} (clock {} ms): object {} destroyed={} (detach calls {}) but the reference model says destroyed={}",
                        $at, model.now, id, d, det, expect
                    );
                }
                if *d && wdet[id] != 1 {
                    let det = wdet[id];
                    fail!("object-fate-mismatch", "{}: object {} was destroyed with {} detach calls", $at, id, det);
                }
            }
            let sn = pool.verif_snapshot();
            if !model.closed && sn.permits + model.in_use != max {
                fail!(
                    "slot-not-released",
                    "{} (clock {} ms): {} free permits but the reference model has {} of {} slots in use ({:?})",
                    $at, model.now, sn.permits, model.in_use, max, sn
                );
            }
        }};
    }

    for (si, step) in case.steps.iter().enumerate() {
        out.step = si;
        world.w().log.push(format!("Step {} {:?} @ {} ms", si, step, model.now));
        match *step {
            Step::Get { per_call } => {
                if gets.iter().filter(|g| g.done.is_none()).count() >= 5 {
                    continue;
                }
                // callers left unpolled by a lazy step run before the new call does
                settle!();
                model.poll_woken();
                let t = per_call.unwrap_or(case.pool_t);
                let p2 = pool.clone();
                let fut: GetFut = match per_call {
                    Some(t3) => {
                        let to = t3.timeouts();
                        Box::pin(async move { p2.timeout_get(&to).await })
                    }
                    None => Box::pin(async move { p2.get().await }),
                };
                let flag = WakeFlag::new();
                flag.woken.store(true, std::sync::atomic::Ordering::SeqCst);
                gets.push(RGet {
                    fut: Some(fut),
                    flag,
                    done: None,
                    first_poll_pending_zero_wait: false,
                });
                let model_before = model.clone();
                let destroyed_before = model.destroyed.len();
                let mrecycles_before = model.n_recycle;
                let g = model.start_get(t);
                let sn_before = pool.verif_snapshot();
                let creates_before = world.w().n_create;
                let recycles_before = world.w().n_recycle;
                settle!();
                model.poll_woken();
                // A call that names a non-zero timeout it could never apply (no runtime) may be
                // refused up front even if it would not have needed that timeout this time.
                if !case.runtime
                    && (t.create.nonzero() || t.recycle.nonzero())
                    && gets[g].done == Some(Res::NoRuntime)
                    && !matches!(model.gets[g].phase, Phase::Done(Res::NoRuntime))
                {
                    let untouched = pool.verif_snapshot() == sn_before
                        && world.w().n_create == creates_before
                        && world.w().n_recycle == recycles_before;
                    if untouched {
                        model = model_before;
                        model.gets.push(MGet { t, phase: Phase::Done(Res::NoRuntime) });
                        out.labels.push("get:NoRuntimeSpecified-up-front".into());
                    }
                }
                // zero wait never waits for a slot
                if t.wait.ms() == Some(0) && gets[g].done.is_none() {
                    let in_call = world.w().gates.iter().any(|gt| !gt.dead && !gt.open);
                    if !in_call {
                        gets[g].first_poll_pending_zero_wait = true;
                        fail!("zero-wait-get-waits", "get #{} with a zero wait timeout is pending outside any manager call", g);
                    }
                }
                if matches!(model.gets[g].phase, Phase::Done(Res::NoRuntime)) {
                    out.labels.push("get:NoRuntimeSpecified".into());
                    out.nontrivial = true;
                    let sn_after = pool.verif_snapshot();
                    // unless the call legitimately rejected idle objects on its way (judged by the model)
                    let model_untouched = model.destroyed.len() == destroyed_before && model.n_recycle == mrecycles_before;
                    if model_untouched && (sn_before != sn_after || world.w().n_create != creates_before) {
                        fail!(
                            "no-runtime-get-touched-pool",
                            "get #{} without a runtime changed the pool from {:?} to {:?}",
                            g, sn_before, sn_after
                        );
                    }
                }
                compare!("after get");
            }
            Step::Advance { ms } => {
                if !case.runtime {
                    continue;
                }
                let target = model.now + ms as u64;
                loop {
                    let next = model.next_deadline().filter(|d| *d <= target);
                    let to = next.unwrap_or(target);
                    if to > model.now {
                        tokio::time::advance(Duration::from_millis(to - model.now)).await;
                        model.now = to;
                    }
                    if next.is_some() {
                        model.close_calls = true;
                        if !model.expire() {
                            out.labels.push("tie-between-two-deadlines".into());
                            return;
                        }
                        settle!();
                        model.poll_woken();
                        compare!("after a deadline");
                    }
                    if model.now >= target {
                        break;
                    }
                }
                settle!();
                model.poll_woken();
                compare!("after advance");
            }
            Step::OpenGate { i, lazy } => {
                let mg = model.closed_gates();
                let Some(k) = pick(i, mg.len()) else { continue };
                let gate = mg[k];
                // the real gate with the same ordinal
                let waker = {
                    let mut w = world.w();
                    if gate >= w.gates.len() || w.gates[gate].dead {
                        drop(w);
                        fail!("gate-mismatch", "model gate {} has no live counterpart (manager calls differ from the model)", gate);
                    }
                    w.gates[gate].open = true;
                    w.gates[gate].waker.take()
                };
                if let Some(wk) = waker {
                    wk.wake();
                }
                // a completion close to its deadline?
                if let Phase::Creating { deadline: Some(d), .. } | Phase::Recycling { deadline: Some(d), .. } = model.gets[model.gates[gate].get].phase {
                    if d - model.now <= 1 {
                        model.close_calls = true;
                    }
                }
                model.open_gate(gate);
                if lazy && case.runtime {
                    out.labels.push("lazy-poll".into());
                } else {
                    settle!();
                    model.poll_woken();
                }
                compare!("after opening a gate");
            }
            Step::Return { h, lazy } => {
                let Some(i) = pick(h, held.len()) else { continue };
                let o = held.remove(i);
                let id = o.id;
                drop(o);
                // a slot freed close to a waiter's deadline?
                if let Some(&g) = model.waiters.front() {
                    if let Phase::Waiting { deadline: Some(d) } = model.gets[g].phase {
                        if d - model.now <= 1 {
                            model.close_calls = true;
                        }
                    }
                }
                model.ret(id);
                if lazy && case.runtime {
                    out.labels.push("lazy-poll".into());
                } else {
                    settle!();
                    model.poll_woken();
                }
                compare!("after a return");
            }
            Step::Close => {
                pool.close();
                model.close();
                settle!();
                model.poll_woken();
                compare!("after close");
            }
        }
    }
    out.nontrivial = out.nontrivial || model.close_calls;
    if model.close_calls {
        out.labels.push("deadline-close-call".into());
    }
    for g in &model.gets {
        if let Phase::Done(r) = &g.phase {
            out.labels.push(format!("res:{:?}", r).split('(').next().unwrap_or("").to_string());
        }
    }
    drop(gets);
    drop(held);
}

// ------------------------------------------------------------------ interpreter (unmanaged)

type UGetFut = Pin<Box<dyn Future<Output = Result<unmanaged::Object<u32>, unmanaged::PoolError>> + Send>>;

fn run_unmanaged(case: &Case) -> Outcome {
    let mut out = Outcome {
        violation: None,
        pair: None,
        other_object: false,
        closed: false,
        labels: vec![],
        nontrivial: false,
        trace: vec![],
        step: 0,
    };
    let rt = if case.runtime {
        Some(
            tokio::runtime::Builder::new_current_thread()
                .enable_time()
                .start_paused(true)
                .build()
                .expect("runtime"),
        )
    } else {
        None
    };
    let mut trace: Vec<String> = vec![];
    let body = run_unmanaged_body(case, &mut out, &mut trace);
    let r = catch_unwind(AssertUnwindSafe(|| match &rt {
        Some(rt) => rt.block_on(body),
        None => {
            let waker = Waker::from(WakeFlag::new());
            let mut cx = Context::from_waker(&waker);
            let mut body = Box::pin(body);
            match body.as_mut().poll(&mut cx) {
                Poll::Ready(()) => {}
                Poll::Pending => panic!("harness: body pending without a runtime"),
            }
        }
    }));
    if let Err(p) = r {
        let pk = classify_panic(p);
        if out.violation.is_none() {
            out.violation = Some(("panic".into(), format!("a pool call panicked: {:?}", pk)));
        }
    }
    out.trace = trace;
    out
}

async fn run_unmanaged_body(case: &Case, out: &mut Outcome, trace: &mut Vec<String>) {
    macro_rules! fail {
        ($o:expr, $($a:tt)*) => {{
            if out.violation.is_none() {
                out.violation = Some(($o.to_string(), format!($($a)*)));
            }
            return;
        }};
    }
    let n = case.max_size as usize;
    let pool: unmanaged::Pool<u32> = unmanaged::Pool::from_config(&unmanaged::PoolConfig {
        max_size: n,
        timeout: case.pool_t.wait.dur(),
        runtime: if case.runtime { Some(Runtime::Tokio1) } else { None },
    });
    for i in 0..n {
        if pool.try_add(i as u32).is_err() {
            fail!("try-add-failed", "try_add of object {} into an empty pool of size {} failed", i, n);
        }
    }
    // model: queued objects, FIFO waiters with deadlines
    let mut now: u64 = 0;
    let mut queued: usize = n;
    let mut waiters: VecDeque<(usize, Option<u64>)> = VecDeque::new();
    let mut expect: Vec<Option<&'static str>> = vec![];
    let mut closed = false;
    let mut close_calls = false;
    struct UG {
        fut: Option<UGetFut>,
        flag: Arc<WakeFlag>,
        done: Option<&'static str>,
    }
    let mut gets: Vec<UG> = vec![];
    let mut held: Vec<unmanaged::Object<u32>> = vec![];

    macro_rules! settle {
        () => {{
            for _round in 0..64 {
                let mut progressed = false;
                for gi in 0..gets.len() {
                    if gets[gi].done.is_some() || !gets[gi].flag.is_set() {
                        continue;
                    }
                    let _ = gets[gi].flag.take();
                    let Some(mut fut) = gets[gi].fut.take() else { continue };
                    let waker = Waker::from(gets[gi].flag.clone());
                    let mut cx = Context::from_waker(&waker);
                    progressed = true;
                    match fut.as_mut().poll(&mut cx) {
                        Poll::Pending => gets[gi].fut = Some(fut),
                        Poll::Ready(r) => {
                            drop(fut);
                            gets[gi].done = Some(match &r {
                                Ok(_) => "Ok",
                                Err(unmanaged::PoolError::Timeout) => "Timeout",
                                Err(unmanaged::PoolError::Closed) => "Closed",
                                Err(unmanaged::PoolError::NoRuntimeSpecified) => "NoRuntimeSpecified",
                            });
                            if let Ok(o) = r {
                                held.push(o);
                            }
                        }
                    }
                }
                if !progressed {
                    break;
                }
            }
        }};
    }
    macro_rules! compare {
        ($at:expr) => {{
            for gi in 0..gets.len() {
                if gets[gi].done != expect[gi] {
                    out.pair = Some((gets[gi].done.unwrap_or("pending"), expect[gi].unwrap_or("pending")));
                    out.closed = closed;
                    fail!(
                        "timing-model-mismatch",
                        "{} (clock {} ms): unmanaged get #{} is {:?} but the reference model says {:?}",
                        $at, now, gi, gets[gi].done, expect[gi]
                    );
                }
            }
        }};
    }

    for (si, step) in case.steps.iter().enumerate() {
        out.step = si;
        trace.push(format!("Step {} {:?} @ {} ms", si, step, now));
        match *step {
            Step::Get { per_call } => {
                if gets.iter().filter(|g| g.done.is_none()).count() >= 5 {
                    continue;
                }
                let t = per_call.map(|t| t.wait).unwrap_or(case.pool_t.wait);
                let p2 = pool.clone();
                let fut: UGetFut = match per_call {
                    Some(t3) => {
                        let d = t3.wait.dur();
                        Box::pin(async move { p2.timeout_get(d).await })
                    }
                    None => Box::pin(async move { p2.get().await }),
                };
                let flag = WakeFlag::new();
                flag.woken.store(true, std::sync::atomic::Ordering::SeqCst);
                gets.push(UG { fut: Some(fut), flag, done: None });
                let g = gets.len() - 1;
                // model
                let e = if closed && !(t.nonzero() && !case.runtime) {
                    Some("Closed")
                } else if queued > 0 && waiters.is_empty() {
                    // a mis-configured call is refused before it touches the pool
                    if t.nonzero() && !case.runtime {
                        Some("NoRuntimeSpecified")
                    } else {
                        queued -= 1;
                        Some("Ok")
                    }
                } else {
                    match t {
                        Tmo::Zero | Tmo::Ms(0) => Some("Timeout"),
                        Tmo::None => {
                            waiters.push_back((g, None));
                            None
                        }
                        Tmo::Ms(_) | Tmo::Us(_) | Tmo::Huge => {
                            if !case.runtime {
                                Some("NoRuntimeSpecified")
                            } else {
                                waiters.push_back((g, Some(now + t.ms().unwrap_or(1))));
                                None
                            }
                        }
                    }
                };
                if e == Some("NoRuntimeSpecified") {
                    out.nontrivial = true;
                    out.labels.push("get:NoRuntimeSpecified".into());
                }
                expect.push(e);
                settle!();
                if matches!(t, Tmo::Zero) && gets[g].done.is_none() {
                    fail!("zero-wait-get-waits", "unmanaged get #{} with a zero timeout is pending", g);
                }
                compare!("after get");
            }
            Step::Advance { ms } => {
                if !case.runtime {
                    continue;
                }
                let target = now + ms as u64;
                loop {
                    let next = waiters.iter().filter_map(|w| w.1).min().filter(|d| *d <= target);
                    let to = next.unwrap_or(target);
                    if to > now {
                        tokio::time::advance(Duration::from_millis(to - now)).await;
                        now = to;
                    }
                    if next.is_some() {
                        close_calls = true;
                        let due: Vec<usize> = waiters.iter().filter(|w| w.1.map(|d| d <= now).unwrap_or(false)).map(|w| w.0).collect();
                        for g in due {
                            waiters.retain(|w| w.0 != g);
                            expect[g] = Some("Timeout");
                        }
                        settle!();
                        compare!("after a deadline");
                    }
                    if now >= target {
                        break;
                    }
                }
                settle!();
                compare!("after advance");
            }
            Step::OpenGate { .. } => {}
            Step::Return { h, .. } => {
                let Some(i) = pick(h, held.len()) else { continue };
                let o = held.remove(i);
                drop(o);
                if closed {
                    // dropped by the closed pool
                } else if let Some((g, d)) = waiters.pop_front() {
                    if let Some(d) = d {
                        if d - now <= 1 {
                            close_calls = true;
                        }
                    }
                    expect[g] = Some("Ok");
                } else {
                    queued += 1;
                }
                settle!();
                compare!("after a return");
            }
            Step::Close => {
                pool.close();
                closed = true;
                queued = 0;
                for (g, _) in waiters.drain(..) {
                    expect[g] = Some("Closed");
                }
                settle!();
                compare!("after close");
            }
        }
    }
    out.nontrivial = out.nontrivial || close_calls;
    if close_calls {
        out.labels.push("deadline-close-call".into());
    }
    for e in expect.iter().flatten() {
        out.labels.push(format!("ures:{}", e));
    }
}

// ------------------------------------------------------------------ generation

fn tmo() -> BoxedStrategy<Tmo> {
    prop_oneof![
        3 => Just(Tmo::None),
        2 => Just(Tmo::Zero),
        4 => prop_oneof![Just(10u16), Just(20), Just(30), Just(50)].prop_map(Tmo::Ms),
        1 => prop_oneof![Just(1u16), Just(500), Just(999)].prop_map(Tmo::Us),
        1 => Just(Tmo::Huge),
    ]
    .boxed()
}

fn t3(runtime: bool) -> BoxedStrategy<T3> {
    (tmo(), tmo(), tmo())
        .prop_map(move |(wait, mut create, mut recycle)| {
            if !runtime {
                // zero create / recycle timeouts without a runtime are outside the statement
                if create == Tmo::Zero {
                    create = Tmo::None;
                }
                if recycle == Tmo::Zero {
                    recycle = Tmo::None;
                }
            }
            T3 { wait, create, recycle }
        })
        .boxed()
}

fn outv() -> BoxedStrategy<Vec<Out>> {
    prop::collection::vec(
        prop_oneof![
            5 => Just(Out::Ok),
            1 => Just(Out::Err),
            3 => any::<bool>().prop_map(Out::Gate),
            1 => Just(Out::Never),
        ],
        0..8,
    )
    .boxed()
}

fn step(runtime: bool) -> BoxedStrategy<Step> {
    prop_oneof![
        6 => prop::option::weighted(0.6, t3(runtime)).prop_map(|per_call| Step::Get { per_call }),
        6 => prop_oneof![Just(1u16), Just(5), Just(9), Just(10), Just(11), Just(19), Just(20), Just(21), Just(30), Just(49), Just(50), Just(51), Just(100)].prop_map(|ms| Step::Advance { ms }),
        3 => (any::<u8>(), prop::bool::weighted(0.3)).prop_map(|(i, lazy)| Step::OpenGate { i, lazy }),
        4 => (any::<u8>(), prop::bool::weighted(0.3)).prop_map(|(h, lazy)| Step::Return { h, lazy }),
        1 => Just(Step::Close),
    ]
    .boxed()
}

pub fn case(thorough: bool) -> BoxedStrategy<Case> {
    let maxlen = if thorough { 40 } else { 24 };
    (any::<bool>(), prop::bool::weighted(0.7), 1u8..=3)
        .prop_flat_map(move |(unmanaged, runtime, max_size)| {
            (
                Just(unmanaged),
                Just(runtime),
                Just(max_size),
                // configured timeouts: mostly legal for the runtime at hand
                prop_oneof![
                    3 => Just(T3 { wait: Tmo::None, create: Tmo::None, recycle: Tmo::None }),
                    2 => t3(runtime),
                ],
                outv(),
                outv(),
                prop::collection::vec(step(runtime), 1..=maxlen),
                0u8..4,
                prop::bool::weighted(0.01),
            )
        })
        .prop_map(|(unmanaged, runtime, max_size, pool_t, create, recycle, steps, via, realtime_zero)| Case {
            unmanaged,
            runtime,
            max_size,
            pool_t,
            create,
            recycle,
            steps,
            via,
            realtime_zero,
        })
        .boxed()
}

/// Byte-level decoding of a case for the libFuzzer target (same domain as `case`).
pub fn decode(data: &[u8]) -> arbitrary::Result<Case> {
    use arbitrary::Unstructured;
    let mut u = Unstructured::new(data);
    fn tmo(u: &mut Unstructured) -> arbitrary::Result<Tmo> {
        Ok(match u.int_in_range(0..=10u8)? {
            0..=2 => Tmo::None,
            3 | 4 => Tmo::Zero,
            5 => Tmo::Ms(10),
            6 => Tmo::Ms(20),
            7 => Tmo::Ms(30),
            8 => Tmo::Ms(50),
            9 => Tmo::Us(500),
            _ => Tmo::Huge,
        })
    }
    fn t3(u: &mut Unstructured, runtime: bool) -> arbitrary::Result<T3> {
        let wait = tmo(u)?;
        let mut create = tmo(u)?;
        let mut recycle = tmo(u)?;
        if !runtime {
            if create == Tmo::Zero {
                create = Tmo::None;
            }
            if recycle == Tmo::Zero {
                recycle = Tmo::None;
            }
        }
        Ok(T3 { wait, create, recycle })
    }
    fn outv(u: &mut Unstructured) -> arbitrary::Result<Vec<Out>> {
        let n = u.int_in_range(0..=7u8)?;
        let mut v = vec![];
        for _ in 0..n {
            v.push(match u.int_in_range(0..=9u8)? {
                0..=4 => Out::Ok,
                5 => Out::Err,
                6 | 7 => Out::Gate(true),
                8 => Out::Gate(false),
                _ => Out::Never,
            });
        }
        Ok(v)
    }
    let flags: u8 = u.arbitrary()?;
    let unmanaged = flags & 1 != 0;
    let runtime = flags & 6 != 0;
    let max_size = 1 + (flags >> 3) % 3;
    let pool_t = if flags & 0x40 != 0 {
        t3(&mut u, runtime)?
    } else {
        T3 { wait: Tmo::None, create: Tmo::None, recycle: Tmo::None }
    };
    let create = outv(&mut u)?;
    let recycle = outv(&mut u)?;
    const ADV: [u16; 13] = [1, 5, 9, 10, 11, 19, 20, 21, 30, 49, 50, 51, 100];
    let mut steps = vec![];
    while !u.is_empty() && steps.len() < 40 {
        let s = match u.int_in_range(0..=19u8)? {
            0..=2 => Step::Get { per_call: Some(t3(&mut u, runtime)?) },
            3..=5 => Step::Get { per_call: None },
            6..=11 => Step::Advance { ms: ADV[u.int_in_range(0..=12usize)?] },
            12..=14 => {
                let b: u8 = u.arbitrary()?;
                Step::OpenGate { i: b, lazy: u.int_in_range(0..=9u8)? < 3 }
            }
            15..=18 => {
                let b: u8 = u.arbitrary()?;
                Step::Return { h: b, lazy: u.int_in_range(0..=9u8)? < 3 }
            }
            _ => Step::Close,
        };
        steps.push(s);
    }
    if steps.is_empty() {
        return Err(arbitrary::Error::NotEnoughData);
    }
    Ok(Case { unmanaged, runtime, max_size, pool_t, create, recycle, steps, via: flags >> 6, realtime_zero: false })
}

pub struct Tsim;

impl Engine for Tsim {
    const NAME: &'static str = "tsim";
    type Case = Case;

    fn properties() -> Vec<&'static str> {
        vec!["C10"]
    }

    fn hang_is_violation(prop: &str) -> bool {
        // these properties promise that calls complete (never deadlock / always complete / instead of hanging)
        matches!(prop, "C10")
    }

    fn rule(_prop: &str) -> String {
        "case = managed or unmanaged pool, runtime present (paused tokio clock) or absent, max_size 1..=3, pool-level and per-call wait / create / recycle timeouts in {none, zero, 10..50 ms}, scripted create / recycle outcomes (ok / error / gated / never) and a history of get / advance / open-gate / return / close steps; every woken future is polled after every step and Advance stops at every pending deadline; distinct by hash of the whole case. Non-trivial: a deadline expired or a completion (gate opened, slot freed) happened within 1 ms of a pending deadline, or a call or build with a non-zero timeout was made without a runtime".into()
    }

    fn assumptions(_prop: &str) -> Vec<String> {
        vec![
            "tokio runtime only (async-std is not exercised)".into(),
            "ties between two different callers' deadlines at the same instant are skipped (the statement allows either order); zero create / recycle timeouts without a runtime and timeouts a call never gets to use are not judged".into(),
            "the reference model assumes FIFO admission (tokio's fair semaphore) and an executor that polls woken tasks before the clock moves again".into(),
        ]
    }

    fn stages(ctx: &Ctx) -> Vec<Stage<Case>> {
        let thorough = ctx.tier == Tier::Thorough;
        vec![Stage {
            name: "random".into(),
            cases: if thorough { 16 * 400000 } else { 16 * 20000 },
            strategy: case(thorough),
        }]
    }

    fn run(ctx: &Ctx, case: &Case) -> Report {
        let mut o = if case.realtime_zero {
            run_realtime_zero(case)
        } else if case.unmanaged {
            run_unmanaged(case)
        } else {
            run_managed(case)
        };
        if let Some((oracle, _)) = &o.violation {
            if !relevant(&ctx.prop, oracle, &o) {
                o.labels.push(format!("outside-this-property:{}", oracle));
                o.violation = None;
            }
        }
        // the model-free run: for the checks that borrow this interpreter, and for C10 itself
        if o.violation.is_none() && !case.realtime_zero && !case.unmanaged && case.runtime && matches!(ctx.prop.as_str(), "C01" | "C02" | "C03" | "C10") {
            let f = run_managed_free(case, &ctx.prop);
            if let Some((oracle, _)) = &f.violation {
                if relevant(&ctx.prop, oracle, &f) {
                    let labels = std::mem::take(&mut o.labels);
                    o = f;
                    o.labels.extend(labels);
                }
            } else {
                o.labels.extend(f.labels);
            }
        }
        let mut labels = std::mem::take(&mut o.labels);
        labels.push(format!("{}:{}", if case.unmanaged { "unmanaged" } else { "managed" }, if case.runtime { "runtime" } else { "no-runtime" }));
        labels.sort();
        labels.dedup();
        Report {
            violation: o.violation.map(|(oracle, detail)| Violation {
                oracle,
                step: o.step,
                detail,
                trace: o.trace,
            }),
            nontrivial: o.nontrivial,
            labels,
            known: vec![],
            inconclusive: None,
            executions: 1,
            sub_nontrivial: vec![],
        }
    }
}


/// managed pools with a runtime only (used by the C04 check for its "times out" clause)
pub fn managed_runtime_case(thorough: bool) -> BoxedStrategy<Case> {
    case(thorough)
        .prop_map(|mut c| {
            c.unmanaged = false;
            c.runtime = true;
            c
        })
        .boxed()
}
