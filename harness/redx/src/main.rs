//! E6: deadpool-redis (standalone pool) against a scripted RESP server on a Unix
//! socket. Serves C17.

use std::collections::{BTreeMap, BTreeSet};
use std::panic::{catch_unwind, AssertUnwindSafe};
use std::sync::atomic::{AtomicU64, Ordering};
use std::sync::{Arc, Mutex};
use std::time::Duration;

use deadpool_redis::{Config, Connection, PoolConfig, Runtime, Timeouts};
use proptest::prelude::*;
use proptest::strategy::BoxedStrategy;
use serde::{Deserialize, Serialize};
use tokio::io::{AsyncReadExt, AsyncWriteExt};
use tokio::net::UnixListener;
use vcore::drive::{Ctx, Engine, Report, Stage, Tier, Violation};
use vcore::pick;
use vcore::sched::{classify_panic, lock};

// ------------------------------------------------------------------ case

/// How the server answers the PING of the n-th recycle.
#[derive(Clone, Copy, Debug, Serialize, Deserialize, PartialEq, Eq, Hash)]
pub enum Reply {
    Echo,
    /// an argument seen in an earlier PING
    Stale,
    Other,
    Err,
    Disconnect,
    Silence,
    /// an empty bulk string
    Empty,
    /// the expected value without its last character
    Prefix,
    /// the expected value followed by one more digit
    Extended,
    /// the reply is held back until another recycle of this pool has sent its PING (at most
    /// 30 ms) and then carries that newer value; without a newer PING it is a correct echo
    Newest,
}

#[derive(Clone, Copy, Debug, Serialize, Deserialize, PartialEq, Eq, Hash)]
pub enum Step {
    Get,
    Return { h: u8 },
    Watch { h: u8 },
    Take { h: u8 },
    /// use a connection taken out of the pool
    UseTaken { t: u8 },
    /// n rounds of get + return of the same slot, answered with correct echoes (the
    /// script of replies is not consumed): long-lived pools, multi-digit PING values
    Churn { n: u16 },
    /// two get() calls in flight at the same time (their recycles overlap on the wire);
    /// only run when the script has no non-echo answer left, so both must succeed
    GetPair,
}

#[derive(Clone, Debug, Serialize, Deserialize, PartialEq, Eq, Hash)]
pub struct Case {
    pub max_size: u8,
    pub replies: Vec<Reply>,
    pub steps: Vec<Step>,
}

// ------------------------------------------------------------------ scripted RESP server

#[derive(Clone, Debug, PartialEq, Eq)]
struct Cmd {
    name: String,
    args: Vec<String>,
    /// what the server answered ("echo", "stale", ...) for PINGs with an argument
    answered: Option<Reply>,
}

#[derive(Default)]
struct ConnS {
    log: Vec<Cmd>,
    watch: BTreeSet<String>,
    dead: bool,
}

#[derive(Default)]
struct Server {
    conns: Vec<ConnS>,
    replies: Vec<Reply>,
    n_recycle: usize,
    /// inside a Churn step: echo, do not consume the script
    churning: bool,
    /// a PING argument that had been used before on this pool
    repeated_ping: Option<String>,
    pings_seen: Vec<String>,
    trace: Vec<String>,
}

type Srv = Arc<Mutex<Server>>;

/// parse one RESP array of bulk strings from buf; returns (command, consumed)
fn parse(buf: &[u8]) -> Option<(Vec<String>, usize)> {
    fn line(buf: &[u8], pos: usize) -> Option<(&[u8], usize)> {
        let mut i = pos;
        while i + 1 < buf.len() {
            if buf[i] == b'\r' && buf[i + 1] == b'\n' {
                return Some((&buf[pos..i], i + 2));
            }
            i += 1;
        }
        None
    }
    if buf.is_empty() || buf[0] != b'*' {
        return None;
    }
    let (l, mut pos) = line(buf, 1)?;
    let n: usize = std::str::from_utf8(l).ok()?.parse().ok()?;
    let mut out = vec![];
    for _ in 0..n {
        if pos >= buf.len() || buf[pos] != b'$' {
            return None;
        }
        let (l, p2) = line(buf, pos + 1)?;
        let len: usize = std::str::from_utf8(l).ok()?.parse().ok()?;
        if p2 + len + 2 > buf.len() {
            return None;
        }
        out.push(String::from_utf8_lossy(&buf[p2..p2 + len]).to_string());
        pos = p2 + len + 2;
    }
    Some((out, pos))
}

fn bulk(s: &str) -> Vec<u8> {
    format!("${}\r\n{}\r\n", s.len(), s).into_bytes()
}

async fn serve(srv: Srv, id: usize, mut s: tokio::net::UnixStream) {
    let mut buf: Vec<u8> = vec![];
    let mut silent = false;
    'outer: loop {
        let mut chunk = [0u8; 4096];
        let n = match s.read(&mut chunk).await {
            Ok(0) | Err(_) => break,
            Ok(n) => n,
        };
        buf.extend_from_slice(&chunk[..n]);
        while let Some((cmd, used)) = parse(&buf) {
            buf.drain(..used);
            if cmd.is_empty() {
                continue;
            }
            let name = cmd[0].to_uppercase();
            let args: Vec<String> = cmd[1..].to_vec();
            let mut out: Vec<u8> = vec![];
            let mut disconnect = false;
            let mut hold_for: Option<String> = None;
            {
                let mut g = lock(&srv);
                let mut answered = None;
                match name.as_str() {
                    "PING" if !args.is_empty() => {
                        let mut r = Reply::Echo;
                        if !g.churning {
                            let i = g.n_recycle;
                            g.n_recycle += 1;
                            r = g.replies.get(i).copied().unwrap_or(Reply::Echo);
                        }
                        if g.repeated_ping.is_none() && g.pings_seen.contains(&args[0]) {
                            g.repeated_ping = Some(args[0].clone());
                        }
                        if r == Reply::Stale && g.pings_seen.is_empty() {
                            r = Reply::Other;
                        }
                        answered = Some(r);
                        match r {
                            Reply::Echo => out = bulk(&args[0]),
                            Reply::Stale => {
                                let old = g.pings_seen[0].clone();
                                // a stale value equal to the fresh one would be a correct echo
                                if old == args[0] {
                                    out = bulk("stale-but-equal-never-sent");
                                } else {
                                    out = bulk(&old);
                                }
                            }
                            Reply::Other => out = bulk("something else"),
                            Reply::Err => out = b"-ERR scripted failure\r\n".to_vec(),
                            Reply::Disconnect => disconnect = true,
                            Reply::Silence => silent = true,
                            Reply::Empty => out = bulk(""),
                            Reply::Prefix => out = bulk(&args[0][..args[0].len().saturating_sub(1)]),
                            Reply::Extended => out = bulk(&format!("{}7", args[0])),
                            Reply::Newest => {
                                hold_for = Some(args[0].clone());
                                answered = None;
                            }
                        }
                        g.pings_seen.push(args[0].clone());
                    }
                    "PING" => out = b"+PONG\r\n".to_vec(),
                    "WHOAMI" => out = bulk(&id.to_string()),
                    "WATCH" => {
                        for a in &args {
                            g.conns[id].watch.insert(a.clone());
                        }
                        out = b"+OK\r\n".to_vec();
                    }
                    "UNWATCH" => {
                        g.conns[id].watch.clear();
                        out = b"+OK\r\n".to_vec();
                    }
                    _ => out = b"+OK\r\n".to_vec(),
                }
                g.trace.push(format!("conn {} <- {} {:?} -> {:?}", id, name, args, answered));
                g.conns[id].log.push(Cmd { name, args, answered });
            }
            if let Some(own) = hold_for {
                let mut val = own.clone();
                for _ in 0..30 {
                    {
                        let g = lock(&srv);
                        if let Some(last) = g.pings_seen.last() {
                            if *last != own {
                                val = last.clone();
                                break;
                            }
                        }
                    }
                    tokio::time::sleep(Duration::from_millis(1)).await;
                }
                out = bulk(&val);
                let mut g = lock(&srv);
                let verdict = if val == own { Reply::Echo } else { Reply::Other };
                if let Some(c) = g.conns[id].log.last_mut() {
                    c.answered = Some(verdict);
                }
                g.trace.push(format!("conn {} held PING {:?} answered with {:?}", id, own, val));
            }
            if disconnect {
                break 'outer;
            }
            if silent {
                // swallow this and every later reply
                continue;
            }
            if s.write_all(&out).await.is_err() {
                break 'outer;
            }
        }
    }
    let mut g = lock(&srv);
    g.conns[id].dead = true;
    g.trace.push(format!("conn {} closed", id));
}

// ------------------------------------------------------------------ interpreter

static SOCK_N: AtomicU64 = AtomicU64::new(0);

struct Out {
    violation: Option<(String, String)>,
    nontrivial: bool,
    labels: Vec<String>,
    step: usize,
}

#[derive(Default, Clone)]
struct ConnM {
    returned_at: Option<usize>,
    handouts: u32,
    taken: bool,
    watch_left: bool,
}

async fn settle() {
    for _ in 0..30 {
        tokio::task::yield_now().await;
    }
    // unix sockets go through the reactor: give it a moment
    tokio::time::sleep(Duration::from_millis(1)).await;
    for _ in 0..10 {
        tokio::task::yield_now().await;
    }
}

async fn whoami<C: redis::aio::ConnectionLike>(c: &mut C) -> Option<usize> {
    let r: Result<String, _> = tokio::time::timeout(Duration::from_secs(5), redis::cmd("WHOAMI").query_async(c))
        .await
        .ok()?;
    r.ok()?.parse().ok()
}

async fn run_case(case: &Case, srv: Srv, out: &mut Out) {
    macro_rules! fail {
        ($o:expr, $($a:tt)*) => {{
            if out.violation.is_none() {
                out.violation = Some(($o.to_string(), format!($($a)*)));
            }
            return;
        }};
    }
    let path = std::env::temp_dir().join(format!(
        "redx-{}-{}.sock",
        std::process::id(),
        SOCK_N.fetch_add(1, Ordering::SeqCst)
    ));
    let _ = std::fs::remove_file(&path);
    let listener = match UnixListener::bind(&path) {
        Ok(l) => l,
        Err(e) => fail!("harness-bind", "cannot bind {}: {}", path.display(), e),
    };
    let srv2 = srv.clone();
    let acceptor = tokio::spawn(async move {
        loop {
            match listener.accept().await {
                Ok((s, _)) => {
                    let id = {
                        let mut g = lock(&srv2);
                        g.conns.push(ConnS::default());
                        let id = g.conns.len() - 1;
                        g.trace.push(format!("conn {} opened", id));
                        id
                    };
                    tokio::spawn(serve(srv2.clone(), id, s));
                }
                Err(_) => break,
            }
        }
    });
    let mut cfg = Config::from_url(format!("redis+unix://{}", path.display()));
    cfg.pool = Some(PoolConfig {
        max_size: case.max_size as usize,
        timeouts: Timeouts {
            wait: Some(Duration::from_secs(10)),
            create: Some(Duration::from_secs(10)),
            recycle: Some(Duration::from_millis(40)),
        },
        ..PoolConfig::default()
    });
    let pool = match cfg.create_pool(Some(Runtime::Tokio1)) {
        Ok(p) => p,
        Err(e) => fail!("create-pool", "{}", e),
    };
    let mut held: Vec<(Connection, usize)> = vec![];
    let mut taken: Vec<(redis::aio::MultiplexedConnection, usize)> = vec![];
    let mut models: BTreeMap<usize, ConnM> = BTreeMap::new();
    // connections that must never be handed out again
    let mut condemned: BTreeSet<usize> = BTreeSet::new();
    let mut bad_replies = 0u32;

    // Churn{n} = n x (Get, Return of the connection just obtained), without the settling pauses
    let mut steps: Vec<(usize, Step, bool)> = vec![];
    for (si, step) in case.steps.iter().enumerate() {
        match *step {
            Step::Churn { n } => {
                for _ in 0..n {
                    steps.push((si, Step::Get, true));
                    steps.push((si, Step::Return { h: 255 }, true));
                }
            }
            s => steps.push((si, s, false)),
        }
    }
    let mut churned = 0usize;
    for (si, step, fast) in steps {
        out.step = si;
        {
            let mut g = lock(&srv);
            g.churning = fast;
            if !fast || g.trace.len() < 400 {
                g.trace.push(format!("Step {} {:?}{}", si, step, if fast { " (churn)" } else { "" }));
            }
        }
        let repeated = {
            let g = lock(&srv);
            g.repeated_ping.clone().map(|v| (v, g.pings_seen.len()))
        };
        if let Some((v, n)) = repeated {
            fail!("ping-value-reused", "PING {:?} was sent although that value had already been used on this pool ({} recycles so far)", v, n);
        }
        macro_rules! settle {
            () => {
                if !fast {
                    settle().await
                }
            };
        }
        match step {
            Step::Get => {
                if held.len() >= case.max_size as usize {
                    continue;
                }
                let logs_before: Vec<usize> = lock(&srv).conns.iter().map(|c| c.log.len()).collect();
                let size_before = pool.status().size;
                let mut conn = match tokio::time::timeout(Duration::from_secs(20), pool.get()).await {
                    Err(_) => fail!("get-hung", "pool.get() did not finish"),
                    Ok(Err(e)) => fail!("get-failed", "pool.get() failed although the server accepts new connections: {}", e),
                    Ok(Ok(c)) => c,
                };
                settle!();
                let Some(id) = whoami(&mut conn).await else {
                    fail!("unusable-connection-handed-out", "get() returned a connection that cannot answer a command")
                };
                // what happened to the idle connections this get() tried: anything whose PING was not echoed is condemned
                {
                    let g = lock(&srv);
                    for (ci, before) in logs_before.iter().enumerate() {
                        for c in &g.conns[ci].log[*before..] {
                            if c.name == "PING" && !c.args.is_empty() && c.answered != Some(Reply::Echo) {
                                condemned.insert(ci);
                                bad_replies += 1;
                            }
                        }
                    }
                }
                if condemned.contains(&id) {
                    fail!(
                        "unsynchronised-connection-handed-out",
                        "connection {} was handed out although its recycling PING was answered with {:?}",
                        id,
                        lock(&srv).conns[id].log.iter().rev().find(|c| c.name == "PING" && !c.args.is_empty()).and_then(|c| c.answered)
                    );
                }
                let m = models.entry(id).or_default();
                if m.taken {
                    fail!("taken-connection-came-back", "connection {} was taken out of the pool and handed out again", id);
                }
                m.handouts += 1;
                if let Some(at) = m.returned_at.take() {
                    out.labels.push("reuse".into());
                    let g = lock(&srv);
                    let window: Vec<Cmd> = g.conns[id].log[at..].iter().filter(|c| c.name != "WHOAMI").cloned().collect();
                    let watch_now = g.conns[id].watch.clone();
                    // all PING arguments ever seen on this pool before the one in the window
                    // the statement asks for an UNWATCH and an echoed PING with a fresh value before
                    // the reuse; it does not order the two and does not forbid further commands
                    let unwatched = window.iter().any(|c| c.name == "UNWATCH");
                    let pings: Vec<&Cmd> = window.iter().filter(|c| c.name == "PING" && !c.args.is_empty()).collect();
                    if !unwatched || pings.is_empty() {
                        drop(g);
                        fail!(
                            "recycle-commands-wrong",
                            "before connection {} was reused the server received {:?}, expected an UNWATCH and a PING <fresh value>",
                            id, window
                        );
                    }
                    if window.len() > 2 || window[0].name != "UNWATCH" {
                        out.labels.push("recycle:other-command-shape".into());
                    }
                    // every PING of the window was answered; the last one decides
                    let ping = *pings.last().unwrap();
                    let v = ping.args.first().cloned().unwrap_or_default();
                    if ping.args.len() != 1 {
                        drop(g);
                        fail!("recycle-commands-wrong", "PING was sent with arguments {:?}", ping.args);
                    }
                    let earlier = g.pings_seen.iter().filter(|p| **p == v).count();
                    if earlier > 1 {
                        drop(g);
                        fail!("ping-value-reused", "connection {} was checked with PING {:?}, a value already used on this pool", id, v);
                    }
                    if ping.answered != Some(Reply::Echo) {
                        let a = ping.answered;
                        drop(g);
                        fail!("unsynchronised-connection-handed-out", "connection {} was reused although its PING was answered with {:?}", id, a);
                    }
                    if !watch_now.is_empty() {
                        drop(g);
                        fail!("watch-state-leaked", "connection {} was reused with watched keys {:?}", id, watch_now);
                    }
                    if m.watch_left {
                        out.labels.push("reuse-after-watch".into());
                        out.nontrivial = true;
                    }
                    m.watch_left = false;
                }
                let _ = size_before;
                held.push((conn, id));
            }
            Step::Return { h } => {
                let Some(i) = pick(h, held.len()) else { continue };
                let (c, id) = held.remove(i);
                settle!();
                let at = lock(&srv).conns[id].log.len();
                drop(c);
                settle!();
                if fast {
                    churned += 1;
                }
                models.entry(id).or_default().returned_at = Some(at);
            }
            Step::Watch { h } => {
                let Some(i) = pick(h, held.len()) else { continue };
                let id = held[i].1;
                let r: Result<String, _> = redis::cmd("WATCH").arg("k").query_async(&mut held[i].0).await;
                if r.is_ok() {
                    models.entry(id).or_default().watch_left = true;
                    out.labels.push("watch".into());
                }
            }
            Step::Take { h } => {
                let Some(i) = pick(h, held.len()) else { continue };
                let (c, id) = held.remove(i);
                let before = pool.status();
                let raw = Connection::take(c);
                let after = pool.status();
                out.labels.push("take".into());
                if after.size + 1 != before.size {
                    fail!("take-size", "Connection::take changed status from {:?} to {:?}", before, after);
                }
                models.entry(id).or_default().taken = true;
                taken.push((raw, id));
            }
            Step::Churn { .. } => unreachable!(),
            Step::GetPair => {
                if held.len() + 2 > case.max_size as usize {
                    continue;
                }
                {
                    let g = lock(&srv);
                    if g.replies.iter().skip(g.n_recycle).any(|r| !matches!(r, Reply::Echo | Reply::Newest)) {
                        continue;
                    }
                }
                let logs_before: Vec<usize> = lock(&srv).conns.iter().map(|c| c.log.len()).collect();
                let (a, b) = tokio::join!(
                    tokio::time::timeout(Duration::from_secs(20), pool.get()),
                    tokio::time::timeout(Duration::from_secs(20), pool.get())
                );
                out.labels.push("get-pair".into());
                {
                    let g = lock(&srv);
                    for (ci, before) in logs_before.iter().enumerate() {
                        for c in &g.conns[ci].log[*before..] {
                            if c.name == "PING" && !c.args.is_empty() && c.answered != Some(Reply::Echo) {
                                condemned.insert(ci);
                                bad_replies += 1;
                                out.labels.push("get-pair:crossed-echo".into());
                            }
                        }
                    }
                }
                for r in [a, b] {
                    let mut conn = match r {
                        Err(_) => fail!("get-hung", "one of two concurrent pool.get() calls did not finish"),
                        Ok(Err(e)) => fail!("get-failed", "one of two concurrent pool.get() calls failed: {}", e),
                        Ok(Ok(c)) => c,
                    };
                    let Some(id) = whoami(&mut conn).await else {
                        fail!("unusable-connection-handed-out", "get() returned a connection that cannot answer a command")
                    };
                    if condemned.contains(&id) {
                        fail!("unsynchronised-connection-handed-out", "connection {} was handed out by one of two concurrent gets although it is condemned", id);
                    }
                    let m = models.entry(id).or_default();
                    if m.taken {
                        fail!("taken-connection-came-back", "connection {} was taken out of the pool and handed out again", id);
                    }
                    m.handouts += 1;
                    if m.returned_at.take().is_some() {
                        out.labels.push("reuse".into());
                        let g = lock(&srv);
                        if !g.conns[id].watch.is_empty() {
                            let wset = g.conns[id].watch.clone();
                            drop(g);
                            fail!("watch-state-leaked", "connection {} was reused with watched keys {:?}", id, wset);
                        }
                        m.watch_left = false;
                    }
                    held.push((conn, id));
                }
            }
            Step::UseTaken { t } => {
                let Some(i) = pick(t, taken.len()) else { continue };
                let id = taken[i].1;
                if lock(&srv).conns[id].dead {
                    continue;
                }
                match whoami(&mut taken[i].0).await {
                    Some(got) if got == id => out.labels.push("taken-works".into()),
                    other => fail!("taken-connection-broken", "taken connection {} answered {:?}", id, other),
                }
            }
        }
    }
    // end probe: the slots of taken / discarded connections are reusable
    let free = case.max_size as usize - held.len();
    let mut extra = vec![];
    for _ in 0..free {
        match tokio::time::timeout(Duration::from_secs(20), pool.get()).await {
            Ok(Ok(c)) => extra.push(c),
            Ok(Err(e)) => fail!("capacity-probe", "the pool could not hand out its full capacity at the end: {}", e),
            Err(_) => fail!("capacity-probe", "the pool could not hand out its full capacity at the end: get() hung"),
        }
    }
    let repeated = lock(&srv).repeated_ping.clone();
    if let Some(v) = repeated {
        fail!("ping-value-reused", "PING {:?} was sent although that value had already been used on this pool", v);
    }
    if churned >= 10 {
        out.labels.push("churn>=10-recycles".into());
    }
    if churned >= 256 {
        out.labels.push("churn>=256-recycles".into());
    }
    out.nontrivial = out.nontrivial || bad_replies > 0;
    if bad_replies > 0 {
        out.labels.push("non-echo-reply".into());
    }
    drop(extra);
    drop(held);
    drop(taken);
    drop(pool);
    acceptor.abort();
    settle().await;
    let _ = std::fs::remove_file(&path);
}

// ------------------------------------------------------------------ generation

fn case(thorough: bool) -> BoxedStrategy<Case> {
    let maxlen = if thorough { 40 } else { 24 };
    let reply = prop_oneof![
        8 => Just(Reply::Echo),
        2 => Just(Reply::Stale),
        2 => Just(Reply::Other),
        2 => Just(Reply::Err),
        2 => Just(Reply::Disconnect),
        1 => Just(Reply::Silence),
        1 => Just(Reply::Empty),
        2 => Just(Reply::Prefix),
        2 => Just(Reply::Extended),
        3 => Just(Reply::Newest),
    ];
    let step = prop_oneof![
        10 => Just(Step::Get),
        9 => any::<u8>().prop_map(|h| Step::Return { h }),
        3 => any::<u8>().prop_map(|h| Step::Watch { h }),
        1 => any::<u8>().prop_map(|h| Step::Take { h }),
        1 => any::<u8>().prop_map(|t| Step::UseTaken { t }),
        1 => prop_oneof![3 => 1u16..40, 1 => 200u16..600].prop_map(|n| Step::Churn { n }),
        2 => Just(Step::GetPair),
    ];
    (1u8..=3, prop::collection::vec(reply, 0..10), prop::collection::vec(step, 1..=maxlen))
        .prop_map(|(max_size, replies, steps)| Case { max_size, replies, steps })
        .boxed()
}

pub struct Redx;

impl Engine for Redx {
    const NAME: &'static str = "redx";
    type Case = Case;

    fn properties() -> Vec<&'static str> {
        vec!["C17"]
    }

    fn rule(_prop: &str) -> String {
        "case = pool size 1..=3, a script of answers to the n-th recycling PING (correct echo / stale echo / other value / empty string / expected value minus its last character / expected value plus a digit / -ERR / disconnect / silence) and a history of get / return / WATCH / Connection::take / use-taken / churn (up to 600 echoed recycles, so PING values grow to several digits and pass 256) / get-pair (two get() calls in flight at once) steps against an in-process scripted RESP server on a Unix socket; distinct by hash of the case. Non-trivial: at least one recycling PING was not answered with the correct echo, or a connection was reused after its previous user left a WATCH".into()
    }

    fn assumptions(_prop: &str) -> Vec<String> {
        vec![
            "the scripted RESP server stands in for Redis; one-directional oracle: a correct echo that the pool nevertheless rejects is allowed".into(),
            "silence is ended by a 40 ms recycle timeout; the wall clock decides no verdict".into(),
        ]
    }

    fn stages(ctx: &Ctx) -> Vec<Stage<Case>> {
        let thorough = ctx.tier == Tier::Thorough;
        vec![Stage {
            name: "random".into(),
            cases: if thorough { 16 * 4000 } else { 16 * 300 },
            strategy: case(thorough),
        }]
    }

    fn run(_ctx: &Ctx, case: &Case) -> Report {
        let srv: Srv = Arc::new(Mutex::new(Server {
            replies: case.replies.clone(),
            ..Default::default()
        }));
        let mut out = Out {
            violation: None,
            nontrivial: false,
            labels: vec![],
            step: 0,
        };
        let rt = tokio::runtime::Builder::new_current_thread().enable_all().build().expect("runtime");
        let r = catch_unwind(AssertUnwindSafe(|| rt.block_on(run_case(case, srv.clone(), &mut out))));
        if let Err(p) = r {
            if out.violation.is_none() {
                out.violation = Some(("panic".into(), format!("{:?}", classify_panic(p))));
            }
        }
        drop(rt);
        let trace = lock(&srv).trace.clone();
        out.labels.sort();
        out.labels.dedup();
        Report {
            violation: out.violation.map(|(oracle, detail)| Violation {
                oracle,
                step: out.step,
                detail,
                trace,
            }),
            nontrivial: out.nontrivial,
            labels: out.labels,
            known: vec![],
            inconclusive: None,
            executions: 1,
            sub_nontrivial: vec![],
        }
    }
}

fn main() {
    vcore::main_for::<Redx>()
}
