//! E5: deadpool-postgres against a scripted PostgreSQL wire server (in-process,
//! over tokio::io::duplex). Serves C16.

use std::collections::{BTreeMap, BTreeSet};
use std::future::Future;
use std::panic::{catch_unwind, AssertUnwindSafe};
use std::pin::Pin;
use std::sync::{Arc, Mutex};

use deadpool_postgres::tokio_postgres::types::Type;
use deadpool_postgres::tokio_postgres::{self, NoTls, SimpleQueryMessage};
use deadpool_postgres::{ClientWrapper, Connect, Manager, ManagerConfig, Object, Pool, RecyclingMethod, Runtime, StatementCache};
use proptest::prelude::*;
use proptest::strategy::BoxedStrategy;
use serde::{Deserialize, Serialize};
use tokio::io::{AsyncReadExt, AsyncWriteExt, DuplexStream};
use tokio::task::JoinHandle;
use vcore::drive::{Ctx, Engine, Report, Stage, Tier, Violation};
use vcore::pick;
use vcore::sched::{classify_panic, lock};

const DISCARD_SQL: &str = "CLOSE ALL; SET SESSION AUTHORIZATION DEFAULT; RESET ALL; UNLISTEN *; SELECT pg_advisory_unlock_all(); DISCARD TEMP; DISCARD SEQUENCES;";

// ------------------------------------------------------------------ case

#[derive(Clone, Copy, Debug, Serialize, Deserialize, PartialEq, Eq, Hash)]
pub enum Method {
    Fast,
    Verified,
    Clean,
    Custom(u8),
}

#[derive(Clone, Copy, Debug, Serialize, Deserialize, PartialEq, Eq, Hash)]
pub enum KillWhen {
    Now,
    OnQuery,
    OnParse,
}

#[derive(Clone, Copy, Debug, Serialize, Deserialize, PartialEq, Eq, Hash)]
pub enum Step {
    Get,
    Return { h: u8 },
    Take { h: u8 },
    Resize { n: u8 },
    /// prepare_cached / prepare_typed_cached on a held client; key = (query index, types index)
    /// `via`: 0 inherent methods, 1 the GenericClient trait, 2 a transaction started through
    /// build_transaction() (with txn) / the trait on the transaction, 3 a nested transaction
    Prepare {
        h: u8,
        q: u8,
        t: u8,
        txn: bool,
        #[serde(default)]
        via: u8,
    },
    /// n prepare_cached calls for the same key in flight at once on one client
    PrepareJoin { h: u8, q: u8, t: u8, n: u8 },
    CacheClear { h: u8 },
    CacheRemove { h: u8, q: u8, t: u8 },
    RegistryClear,
    RegistryRemove { q: u8, t: u8 },
    Kill { c: u8, when: KillWhen },
    FailNextQuery { c: u8 },
}

#[derive(Clone, Debug, Serialize, Deserialize, PartialEq, Eq, Hash)]
pub struct Case {
    pub max_size: u8,
    pub method: Method,
    pub steps: Vec<Step>,
}

const QUERIES: [&str; 3] = ["SELECT 1", "SELECT 2", "SELECT $1"];

fn types_of(t: u8) -> Vec<Type> {
    match t % 3 {
        0 => vec![],
        1 => vec![Type::INT4],
        _ => vec![Type::TEXT],
    }
}

fn custom_sql(i: u8) -> String {
    // the custom SQL is issued as given, also when it is empty or blank
    match i % 8 {
        6 => "".to_string(),
        7 => "  ".to_string(),
        _ => format!("SELECT {}", 100 + i as u32),
    }
}

// ------------------------------------------------------------------ scripted server

#[derive(Clone, Debug, PartialEq, Eq)]
enum Front {
    Query(String),
    Parse { name: String, query: String, oids: Vec<u32> },
    Describe,
    Sync,
    Close,
    Terminate,
    Other(u8),
}

#[derive(Default)]
struct ConnState {
    log: Vec<Front>,
    kill_now: bool,
    kill_on_query: bool,
    kill_on_parse: bool,
    fail_next_query: bool,
    dead: bool,
    parses: u32,
    /// log indices of queries that were answered with an ErrorResponse
    errored: Vec<usize>,
    notify: Option<Arc<tokio::sync::Notify>>,
}

#[derive(Default)]
struct Server {
    conns: Vec<ConnState>,
    trace: Vec<String>,
}

type Srv = Arc<Mutex<Server>>;

fn put_msg(out: &mut Vec<u8>, tag: u8, body: &[u8]) {
    out.push(tag);
    out.extend_from_slice(&((body.len() as i32 + 4).to_be_bytes()));
    out.extend_from_slice(body);
}

fn cstr(buf: &[u8], pos: &mut usize) -> String {
    let start = *pos;
    while *pos < buf.len() && buf[*pos] != 0 {
        *pos += 1;
    }
    let s = String::from_utf8_lossy(&buf[start..*pos]).to_string();
    *pos += 1;
    s
}

async fn serve(srv: Srv, id: usize, mut s: DuplexStream, notify: Arc<tokio::sync::Notify>) {
    // startup
    let mut len = [0u8; 4];
    if s.read_exact(&mut len).await.is_err() {
        lock(&srv).conns[id].dead = true;
        return;
    }
    let n = i32::from_be_bytes(len) as usize;
    let mut body = vec![0u8; n.saturating_sub(4)];
    if s.read_exact(&mut body).await.is_err() {
        lock(&srv).conns[id].dead = true;
        return;
    }
    let mut out = vec![];
    put_msg(&mut out, b'R', &0i32.to_be_bytes());
    for (k, v) in [("server_version", "14.0"), ("client_encoding", "UTF8"), ("integer_datetimes", "on")] {
        let mut b = vec![];
        b.extend_from_slice(k.as_bytes());
        b.push(0);
        b.extend_from_slice(v.as_bytes());
        b.push(0);
        put_msg(&mut out, b'S', &b);
    }
    let mut k = vec![];
    k.extend_from_slice(&(id as i32 + 1000).to_be_bytes());
    k.extend_from_slice(&42i32.to_be_bytes());
    put_msg(&mut out, b'K', &k);
    put_msg(&mut out, b'Z', b"I");
    if s.write_all(&out).await.is_err() {
        lock(&srv).conns[id].dead = true;
        return;
    }
    let mut in_txn = false;
    loop {
        if lock(&srv).conns[id].kill_now {
            break;
        }
        let mut hdr = [0u8; 5];
        let r = tokio::select! {
            r = s.read_exact(&mut hdr) => r.map(|_| ()),
            _ = notify.notified() => {
                if lock(&srv).conns[id].kill_now { break; }
                continue;
            }
        };
        if r.is_err() {
            break;
        }
        let tag = hdr[0];
        let n = i32::from_be_bytes([hdr[1], hdr[2], hdr[3], hdr[4]]) as usize;
        let mut body = vec![0u8; n.saturating_sub(4)];
        if s.read_exact(&mut body).await.is_err() {
            break;
        }
        let mut out = vec![];
        let mut kill = false;
        {
            let mut g = lock(&srv);
            let front = match tag {
                b'Q' => {
                    let mut p = 0;
                    Front::Query(cstr(&body, &mut p))
                }
                b'P' => {
                    let mut p = 0;
                    let name = cstr(&body, &mut p);
                    let query = cstr(&body, &mut p);
                    let cnt = i16::from_be_bytes([body[p], body[p + 1]]) as usize;
                    p += 2;
                    let mut oids = vec![];
                    for _ in 0..cnt {
                        oids.push(u32::from_be_bytes([body[p], body[p + 1], body[p + 2], body[p + 3]]));
                        p += 4;
                    }
                    Front::Parse { name, query, oids }
                }
                b'D' => Front::Describe,
                b'S' => Front::Sync,
                b'C' => Front::Close,
                b'X' => Front::Terminate,
                t => Front::Other(t),
            };
            g.trace.push(format!("conn {} <- {:?}", id, front));
            let c = &mut g.conns[id];
            c.log.push(front.clone());
            match &front {
                Front::Query(sql) => {
                    if c.kill_on_query {
                        c.kill_on_query = false;
                        kill = true;
                    } else if sql == "WHOAMI" {
                        put_msg(&mut out, b'C', format!("SELECT {}\0", id).as_bytes());
                        put_msg(&mut out, b'Z', if in_txn { b"T" } else { b"I" });
                    } else if c.fail_next_query {
                        c.fail_next_query = false;
                        let idx = c.log.len() - 1;
                        c.errored.push(idx);
                        let mut b = vec![];
                        for (f, val) in [(b'S', "ERROR"), (b'V', "ERROR"), (b'C', "XX000"), (b'M', "scripted failure")] {
                            b.push(f);
                            b.extend_from_slice(val.as_bytes());
                            b.push(0);
                        }
                        b.push(0);
                        put_msg(&mut out, b'E', &b);
                        put_msg(&mut out, b'Z', if in_txn { b"E" } else { b"I" });
                    } else if sql.is_empty() {
                        put_msg(&mut out, b'I', b"");
                        put_msg(&mut out, b'Z', if in_txn { b"T" } else { b"I" });
                    } else {
                        let up = sql.to_uppercase();
                        let tag = if up.starts_with("START TRANSACTION") || up.starts_with("BEGIN") {
                            in_txn = true;
                            "BEGIN"
                        } else if up.starts_with("ROLLBACK") {
                            in_txn = false;
                            "ROLLBACK"
                        } else if up.starts_with("COMMIT") {
                            in_txn = false;
                            "COMMIT"
                        } else {
                            "SET"
                        };
                        // a multi-statement script yields one CommandComplete per statement; one is enough for the client
                        put_msg(&mut out, b'C', format!("{}\0", tag).as_bytes());
                        put_msg(&mut out, b'Z', if in_txn { b"T" } else { b"I" });
                    }
                }
                Front::Parse { oids, .. } => {
                    if c.kill_on_parse {
                        c.kill_on_parse = false;
                        kill = true;
                    } else {
                        c.parses += 1;
                        let serial = c.parses;
                        put_msg(&mut out, b'1', b"");
                        // answers to the Describe that follows are prepared here
                        let mut t = vec![];
                        t.extend_from_slice(&(oids.len() as i16).to_be_bytes());
                        for o in oids {
                            t.extend_from_slice(&o.to_be_bytes());
                        }
                        put_msg(&mut out, b't', &t);
                        let mut r = vec![];
                        r.extend_from_slice(&1i16.to_be_bytes());
                        r.extend_from_slice(format!("c{}_{}\0", id, serial).as_bytes());
                        r.extend_from_slice(&0i32.to_be_bytes());
                        r.extend_from_slice(&0i16.to_be_bytes());
                        r.extend_from_slice(&23i32.to_be_bytes());
                        r.extend_from_slice(&4i16.to_be_bytes());
                        r.extend_from_slice(&(-1i32).to_be_bytes());
                        r.extend_from_slice(&0i16.to_be_bytes());
                        put_msg(&mut out, b'T', &r);
                    }
                }
                Front::Describe => {}
                Front::Close => put_msg(&mut out, b'3', b""),
                Front::Sync => put_msg(&mut out, b'Z', if in_txn { b"T" } else { b"I" }),
                Front::Terminate => kill = true,
                Front::Other(_) => {}
            }
        }
        if kill {
            break;
        }
        if !out.is_empty() && s.write_all(&out).await.is_err() {
            break;
        }
    }
    let mut g = lock(&srv);
    g.conns[id].dead = true;
    g.trace.push(format!("conn {} closed by server", id));
    drop(g);
    drop(s);
}

struct ScriptedConnect {
    srv: Srv,
}

impl Connect for ScriptedConnect {
    fn connect(
        &self,
        pg_config: &tokio_postgres::Config,
    ) -> Pin<Box<dyn Future<Output = Result<(tokio_postgres::Client, JoinHandle<()>), tokio_postgres::Error>> + Send + '_>> {
        let cfg = pg_config.clone();
        let srv = self.srv.clone();
        Box::pin(async move {
            let (a, b) = tokio::io::duplex(1 << 16);
            let notify = Arc::new(tokio::sync::Notify::new());
            let id = {
                let mut g = lock(&srv);
                g.conns.push(ConnState {
                    notify: Some(notify.clone()),
                    ..Default::default()
                });
                let id = g.conns.len() - 1;
                g.trace.push(format!("conn {} opened", id));
                id
            };
            tokio::spawn(serve(srv.clone(), id, b, notify));
            let (client, connection) = cfg.connect_raw(a, NoTls).await?;
            let task = tokio::spawn(async move {
                let _ = connection.await;
            });
            Ok((client, task))
        })
    }
}

// ------------------------------------------------------------------ interpreter

struct HeldC {
    obj: Object,
    conn: usize,
}

#[derive(Default, Clone)]
struct ClientModel {
    /// key -> column names the cached statement may have (one unless concurrent misses raced)
    cache: BTreeMap<(u8, u8), Vec<String>>,
    /// log length of the connection when the client was returned
    returned_at: Option<usize>,
    handouts: u32,
    /// still owned by the pool (idle or checked out)
    pool_owned: bool,
    killed: bool,
    failed_recycle: bool,
}

async fn settle() {
    for _ in 0..40 {
        tokio::task::yield_now().await;
    }
}

struct Out {
    violation: Option<(String, String)>,
    nontrivial: bool,
    labels: Vec<String>,
    step: usize,
}

async fn whoami(obj: &Object) -> Option<usize> {
    match obj.simple_query("WHOAMI").await {
        Ok(msgs) => msgs.iter().find_map(|m| match m {
            SimpleQueryMessage::CommandComplete(n) => Some(*n as usize),
            _ => None,
        }),
        Err(_) => None,
    }
}

async fn run_case(case: &Case, srv: Srv, out: &mut Out) {
    macro_rules! fail {
        ($o:expr, $($a:tt)*) => {{
            if out.violation.is_none() {
                out.violation = Some(($o.to_string(), format!($($a)*)));
            }
            return;
        }};
    }
    let method = match case.method {
        Method::Fast => RecyclingMethod::Fast,
        Method::Verified => RecyclingMethod::Verified,
        Method::Clean => RecyclingMethod::Clean,
        Method::Custom(i) => RecyclingMethod::Custom(custom_sql(i)),
    };
    let expected_check: Option<String> = match case.method {
        Method::Fast => None,
        Method::Verified => Some(String::new()),
        Method::Clean => Some(DISCARD_SQL.to_string()),
        Method::Custom(i) => Some(custom_sql(i)),
    };
    let mut pg = tokio_postgres::Config::new();
    pg.user("verif").dbname("verif").ssl_mode(tokio_postgres::config::SslMode::Disable);
    let mgr = Manager::from_connect(pg, ScriptedConnect { srv: srv.clone() }, ManagerConfig { recycling_method: method });
    let pool: Pool = match Pool::builder(mgr).max_size(case.max_size as usize).runtime(Runtime::Tokio1).build() {
        Ok(p) => p,
        Err(e) => fail!("build-failed", "{:?}", e),
    };
    let mut held: Vec<HeldC> = vec![];
    let mut taken: Vec<(ClientWrapper, usize)> = vec![];
    let mut models: BTreeMap<usize, ClientModel> = BTreeMap::new();
    // an Arc to the cache of every client ever seen
    let mut caches: BTreeMap<usize, Arc<StatementCache>> = BTreeMap::new();
    let mut limit = case.max_size as usize;
    let mut ptrs: BTreeMap<usize, usize> = BTreeMap::new();

    for (si, step) in case.steps.iter().enumerate() {
        out.step = si;
        lock(&srv).trace.push(format!("Step {} {:?}", si, step));
        match *step {
            Step::Get => {
                if held.len() >= limit || held.len() >= 4 {
                    continue;
                }
                // what was dead before the call (after everything settled)
                let dead_before: BTreeSet<usize> = {
                    let g = lock(&srv);
                    g.conns.iter().enumerate().filter(|(_, c)| c.dead).map(|(i, _)| i).collect()
                };
                let logs_before: Vec<usize> = lock(&srv).conns.iter().map(|c| c.log.len()).collect();
                let r = tokio::time::timeout(std::time::Duration::from_secs(20), pool.get()).await;
                let obj = match r {
                    Err(_) => fail!("get-hung", "pool.get() did not finish"),
                    Ok(Err(e)) => {
                        out.labels.push(format!("get:err"));
                        // creation can fail only if the server refused, which it never does
                        fail!("get-failed", "pool.get() failed: {}", e)
                    }
                    Ok(Ok(o)) => o,
                };
                settle().await;
                // identity: the cache pointer if the client was seen before, else ask the server
                let ptr = Arc::as_ptr(&obj.statement_cache) as usize;
                let known = ptrs.get(&ptr).copied();
                let answered = whoami(&obj).await;
                settle().await;
                let conn = match (known, answered) {
                    (_, Some(c)) => c,
                    (Some(c), None) => {
                        // the probe itself may have triggered a scripted kill
                        out.labels.push("died-at-probe".into());
                        c
                    }
                    (None, None) => {
                        let closed = obj.is_closed();
                        fail!("dead-client-handed-out", "get() returned a new client that cannot answer a query (is_closed {})", closed)
                    }
                };
                if let Some(k) = known {
                    if k != conn {
                        fail!("identity-mismatch", "client known as connection {} answered as connection {}", k, conn);
                    }
                }
                ptrs.insert(ptr, conn);
                if dead_before.contains(&conn) {
                    fail!("dead-client-handed-out", "get() returned the client of connection {} which the server had closed before the call", conn);
                }
                let m = models.entry(conn).or_default();
                caches.entry(conn).or_insert_with(|| obj.statement_cache.clone());
                if m.killed || m.failed_recycle {
                    fail!("discarded-client-handed-out", "connection {} was handed out again after it was killed or failed its check", conn);
                }
                if !m.pool_owned && m.handouts > 0 {
                    fail!("discarded-client-handed-out", "connection {} left the pool earlier and was handed out again", conn);
                }
                m.pool_owned = true;
                m.handouts += 1;
                // the documented check, exactly once, between return and hand-out
                if let Some(at) = m.returned_at.take() {
                    out.labels.push("reuse".into());
                    let g = lock(&srv);
                    if let Some(e) = g.conns[conn].errored.iter().find(|i| **i >= at) {
                        let q = format!("{:?}", g.conns[conn].log[*e]);
                        drop(g);
                        fail!(
                            "failed-check-client-handed-out",
                            "connection {} answered its recycling check {} with an ErrorResponse and was handed out anyway",
                            conn, q
                        );
                    }
                    let qs: Vec<String> = g.conns[conn].log[at..]
                        .iter()
                        .filter_map(|f| match f {
                            Front::Query(q) if q != "WHOAMI" => Some(q.clone()),
                            _ => None,
                        })
                        .collect();
                    drop(g);
                    let want: Vec<String> = expected_check.iter().cloned().collect();
                    if qs != want {
                        fail!(
                            "recycle-check-wrong",
                            "recycling method {:?}: between return and hand-out connection {} received queries {:?}, expected {:?}",
                            case.method, conn, qs, want
                        );
                    }
                }
                // clients that were idle and not chosen must not have been touched, except rejected ones
                let g = lock(&srv);
                for (ci, before) in logs_before.iter().enumerate() {
                    if ci == conn {
                        continue;
                    }
                    let mm = models.get(&ci);
                    let idle = mm.map(|m| m.pool_owned && m.returned_at.is_some()).unwrap_or(false);
                    let qs: Vec<&Front> = g.conns[ci].log[*before..].iter().filter(|f| matches!(f, Front::Query(_))).collect();
                    if idle && !qs.is_empty() {
                        // it was offered and rejected: it must be gone for good
                        let mm = models.get_mut(&ci).unwrap();
                        mm.failed_recycle = true;
                        mm.pool_owned = false;
                    }
                }
                drop(g);
                // connections that died while idle were discarded by this get if it met them
                held.push(HeldC { obj, conn });
            }
            Step::Return { h } => {
                let Some(i) = pick(h, held.len()) else { continue };
                let hc = held.remove(i);
                settle().await;
                let at = lock(&srv).conns[hc.conn].log.len();
                let over = held.len() + 1 > limit; // surplus after a shrink is discarded
                drop(hc.obj);
                settle().await;
                if let Some(m) = models.get_mut(&hc.conn) {
                    if over {
                        m.pool_owned = false;
                    } else {
                        m.returned_at = Some(at);
                    }
                }
            }
            Step::Take { h } => {
                let Some(i) = pick(h, held.len()) else { continue };
                let hc = held.remove(i);
                let cw = Object::take(hc.obj);
                if let Some(m) = models.get_mut(&hc.conn) {
                    m.pool_owned = false;
                }
                out.labels.push("take".into());
                taken.push((cw, hc.conn));
            }
            Step::Resize { n } => {
                let n = n as usize;
                let st_before = pool.status();
                pool.resize(n);
                settle().await;
                limit = n;
                // idle clients released by the shrink leave the pool
                let st = pool.status();
                if st.size < st_before.size {
                    out.labels.push("shrink-released".into());
                    // which ones: those whose server side saw the connection close
                    let g = lock(&srv);
                    for (ci, m) in models.iter_mut() {
                        if m.pool_owned && m.returned_at.is_some() && g.conns[*ci].dead {
                            m.pool_owned = false;
                        }
                    }
                }
            }
            Step::Prepare { h, q, t, txn, via } => {
                let Some(i) = pick(h, held.len()) else { continue };
                let conn = held[i].conn;
                let key = (q % 3, t % 3);
                let query = QUERIES[key.0 as usize];
                let types = types_of(key.1);
                settle().await;
                let before = lock(&srv).conns[conn].log.len();
                let armed = lock(&srv).conns[conn].fail_next_query;
                use deadpool_postgres::GenericClient;
                out.labels.push(format!("prepare:via{}{}", via % 4, if txn { "-txn" } else { "" }));
                let res = if txn {
                    let obj = &mut held[i].obj;
                    let started = match via % 4 {
                        2 => match (via / 4) % 4 {
                            1 => obj.build_transaction().read_only(true).start().await,
                            2 => obj.build_transaction().deferrable(true).start().await,
                            3 => obj.build_transaction().isolation_level(tokio_postgres::IsolationLevel::Serializable).read_only(false).start().await,
                            _ => obj.build_transaction().start().await,
                        },
                        1 => GenericClient::transaction(obj).await,
                        _ => obj.transaction().await,
                    };
                    match started {
                        Err(e) => Err(e),
                        Ok(mut tx) => {
                            let r = match via % 4 {
                                1 => {
                                    if types.is_empty() {
                                        GenericClient::prepare_cached(&tx, query).await
                                    } else {
                                        GenericClient::prepare_typed_cached(&tx, query, &types).await
                                    }
                                }
                                3 => match tx.transaction().await {
                                    Err(e) => Err(e),
                                    Ok(inner) => {
                                        let r = if types.is_empty() { inner.prepare_cached(query).await } else { inner.prepare_typed_cached(query, &types).await };
                                        drop(inner);
                                        r
                                    }
                                },
                                _ => {
                                    if types.is_empty() {
                                        tx.prepare_cached(query).await
                                    } else {
                                        tx.prepare_typed_cached(query, &types).await
                                    }
                                }
                            };
                            drop(tx);
                            r
                        }
                    }
                } else if via % 4 == 1 {
                    if types.is_empty() {
                        GenericClient::prepare_cached(&held[i].obj, query).await
                    } else {
                        GenericClient::prepare_typed_cached(&held[i].obj, query, &types).await
                    }
                } else if types.is_empty() {
                    held[i].obj.prepare_cached(query).await
                } else {
                    held[i].obj.prepare_typed_cached(query, &types).await
                };
                settle().await;
                let m = models.entry(conn).or_default();
                let g = lock(&srv);
                let new: Vec<Front> = g.conns[conn].log[before..].to_vec();
                let dead = g.conns[conn].dead;
                drop(g);
                let parses: Vec<&Front> = new.iter().filter(|f| matches!(f, Front::Parse { .. })).collect();
                match res {
                    Err(e) => {
                        if armed && !dead {
                            // the scripted query failure hit the transaction's BEGIN
                            out.labels.push("prepare:scripted-failure".into());
                        } else {
                            if !dead {
                                fail!("prepare-failed", "prepare on live connection {} failed: {}", conn, e);
                            }
                            out.labels.push("prepare:conn-dead".into());
                            m.killed = true;
                        }
                    }
                    Ok(stmt) => {
                        let col = stmt.columns().first().map(|c| c.name().to_string()).unwrap_or_default();
                        if !col.starts_with(&format!("c{}_", conn)) {
                            fail!("statement-from-other-connection", "prepare on connection {} returned a statement with column {:?}", conn, col);
                        }
                        match m.cache.get(&key) {
                            Some(prev) => {
                                out.labels.push("prepare:hit".into());
                                if m.handouts >= 2 {
                                    out.labels.push("prepare:hit-on-recycled-client".into());
                                }
                                if !prev.contains(&col) {
                                    fail!("cache-hit-wrong-statement", "key {:?} on connection {} was cached as {:?} but {} was returned", key, conn, prev, col);
                                }
                                m.cache.insert(key, vec![col.clone()]);
                                let extra: Vec<&Front> = new.iter().filter(|f| !(txn && matches!(f, Front::Query(_)))).collect();
                                if !extra.is_empty() {
                                    fail!("cache-hit-caused-round-trip", "a cache hit for {:?} on connection {} sent {:?}", key, conn, extra);
                                }
                            }
                            None => {
                                out.labels.push("prepare:miss".into());
                                if m.cache.keys().any(|k| k.0 == key.0 && k.1 != key.1) {
                                    out.labels.push("prepare:same-text-other-types".into());
                                }
                                if parses.len() != 1 {
                                    fail!("cache-miss-parses", "a cache miss for {:?} on connection {} caused {} Parse messages", key, conn, parses.len());
                                }
                                if let Front::Parse { query: pq, oids, .. } = parses[0] {
                                    let want_oids: Vec<u32> = types.iter().map(|t| t.oid()).collect();
                                    if pq != query || oids != &want_oids {
                                        fail!("parse-mismatch", "key ({:?}, {:?}) was prepared as ({:?}, {:?})", query, want_oids, pq, oids);
                                    }
                                }
                                m.cache.insert(key, vec![col]);
                            }
                        }
                        let size = held[i].obj.statement_cache.size();
                        if size != m.cache.len() {
                            fail!("cache-size", "statement_cache.size() is {} but {} keys are cached on connection {}", size, m.cache.len(), conn);
                        }
                    }
                }
            }
            Step::PrepareJoin { h, q, t, n } => {
                let Some(i) = pick(h, held.len()) else { continue };
                let conn = held[i].conn;
                let key = (q % 3, t % 3);
                let query = QUERIES[key.0 as usize];
                let types = types_of(key.1);
                if lock(&srv).conns[conn].dead || lock(&srv).conns[conn].kill_on_parse || models.get(&conn).map(|m| m.killed).unwrap_or(false) {
                    continue;
                }
                settle().await;
                let before = lock(&srv).conns[conn].log.len();
                let obj = &held[i].obj;
                let results = match n % 2 {
                    0 => {
                        let (a, b) = tokio::join!(obj.prepare_typed_cached(query, &types), obj.prepare_typed_cached(query, &types));
                        vec![a, b]
                    }
                    _ => {
                        let (a, b, c) = tokio::join!(
                            obj.prepare_typed_cached(query, &types),
                            obj.prepare_typed_cached(query, &types),
                            obj.prepare_typed_cached(query, &types)
                        );
                        vec![a, b, c]
                    }
                };
                settle().await;
                out.labels.push("prepare:concurrent-same-key".into());
                let m = models.entry(conn).or_default();
                let parses = lock(&srv).conns[conn].log[before..].iter().filter(|f| matches!(f, Front::Parse { .. })).count();
                let mut cols = vec![];
                for r in results {
                    match r {
                        Err(e) => fail!("prepare-failed", "concurrent prepare on live connection {} failed: {}", conn, e),
                        Ok(stmt) => {
                            let col = stmt.columns().first().map(|c| c.name().to_string()).unwrap_or_default();
                            if !col.starts_with(&format!("c{}_", conn)) {
                                fail!("statement-from-other-connection", "prepare on connection {} returned a statement with column {:?}", conn, col);
                            }
                            cols.push(col);
                        }
                    }
                }
                match m.cache.get(&key) {
                    Some(prev) => {
                        if parses != 0 || cols.iter().any(|c| !prev.contains(c)) {
                            fail!("cache-hit-wrong-statement", "concurrent hits for {:?} on connection {}: cached {:?}, returned {:?}, {} Parse messages", key, conn, prev, cols, parses);
                        }
                    }
                    None => {
                        if parses == 0 || parses > cols.len() {
                            fail!("cache-miss-parses", "concurrent misses for {:?} caused {} Parse messages for {} calls", key, parses, cols.len());
                        }
                        out.nontrivial = true;
                        cols.sort();
                        cols.dedup();
                        m.cache.insert(key, cols);
                    }
                }
                let size = held[i].obj.statement_cache.size();
                if size != m.cache.len() {
                    fail!("cache-size", "statement_cache.size() is {} but {} keys are cached on connection {} (after concurrent prepares of one key)", size, m.cache.len(), conn);
                }
            }
            Step::CacheClear { h } => {
                let Some(i) = pick(h, held.len()) else { continue };
                held[i].obj.statement_cache.clear();
                models.entry(held[i].conn).or_default().cache.clear();
                settle().await;
            }
            Step::CacheRemove { h, q, t } => {
                let Some(i) = pick(h, held.len()) else { continue };
                let key = (q % 3, t % 3);
                let r = held[i].obj.statement_cache.remove(QUERIES[key.0 as usize], &types_of(key.1));
                let m = models.entry(held[i].conn).or_default();
                let had = m.cache.remove(&key).is_some();
                if r.is_some() != had {
                    fail!("cache-remove", "remove({:?}) returned {:?} but the key was {}cached", key, r.is_some(), if had { "" } else { "not " });
                }
                let size = held[i].obj.statement_cache.size();
                if size != m.cache.len() {
                    fail!("cache-size", "statement_cache.size() is {} but {} keys are cached", size, m.cache.len());
                }
                settle().await;
            }
            Step::RegistryClear | Step::RegistryRemove { .. } => {
                let sizes_before: BTreeMap<usize, usize> = caches.iter().map(|(c, a)| (*c, a.size())).collect();
                let key = match *step {
                    Step::RegistryRemove { q, t } => Some((q % 3, t % 3)),
                    _ => None,
                };
                match key {
                    None => pool.manager().statement_caches.clear(),
                    Some(k) => pool.manager().statement_caches.remove(QUERIES[k.0 as usize], &types_of(k.1)),
                }
                settle().await;
                for (conn, cache) in caches.iter() {
                    let m = models.entry(*conn).or_default();
                    let before = sizes_before[conn];
                    // ground truth: the pool owns a client iff its wrapper is alive and was not taken
                    let is_taken = taken.iter().any(|t| t.1 == *conn);
                    let owned = !is_taken && Arc::strong_count(cache) > 1;
                    m.pool_owned = owned;
                    if owned {
                        match key {
                            None => m.cache.clear(),
                            Some(k) => {
                                m.cache.remove(&k);
                            }
                        }
                        if cache.size() != m.cache.len() {
                            fail!(
                                "registry-missed-pool-client",
                                "{:?}: connection {} is owned by the pool, its cache has size {} but should have {}",
                                step, conn, cache.size(), m.cache.len()
                            );
                        }
                    } else {
                        if before > 0 {
                            out.labels.push("registry-call-after-client-left".into());
                            out.nontrivial = true;
                        }
                        if cache.size() != before {
                            fail!(
                                "registry-reached-departed-client",
                                "{:?}: connection {} no longer belongs to the pool but its cache went from {} to {} entries",
                                step, conn, before, cache.size()
                            );
                        }
                    }
                }
            }
            Step::Kill { c, when } => {
                let n = lock(&srv).conns.len();
                let Some(ci) = pick(c, n) else { continue };
                let notify = {
                    let mut g = lock(&srv);
                    match when {
                        KillWhen::Now => g.conns[ci].kill_now = true,
                        KillWhen::OnQuery => g.conns[ci].kill_on_query = true,
                        KillWhen::OnParse => g.conns[ci].kill_on_parse = true,
                    }
                    g.conns[ci].notify.clone()
                };
                if let (KillWhen::Now, Some(nf)) = (when, notify) {
                    nf.notify_one();
                }
                out.labels.push(format!("kill:{:?}", when));
                settle().await;
            }
            Step::FailNextQuery { c } => {
                let n = lock(&srv).conns.len();
                let Some(ci) = pick(c, n) else { continue };
                lock(&srv).conns[ci].fail_next_query = true;
                out.labels.push("fail-next-query".into());
            }
        }
    }
    let ls = &out.labels;
    out.nontrivial = out.nontrivial
        || ls.iter().any(|l| l == "prepare:hit-on-recycled-client" || l == "prepare:same-text-other-types");
    drop(held);
    drop(taken);
    drop(pool);
    settle().await;
}

// ------------------------------------------------------------------ generation

fn step() -> BoxedStrategy<Step> {
    prop_oneof![
        10 => Just(Step::Get),
        8 => any::<u8>().prop_map(|h| Step::Return { h }),
        1 => any::<u8>().prop_map(|h| Step::Take { h }),
        1 => (0u8..4).prop_map(|n| Step::Resize { n }),
        10 => (any::<u8>(), 0u8..3, 0u8..3, prop::bool::weighted(0.25), 0u8..16).prop_map(|(h, q, t, txn, via)| Step::Prepare { h, q, t, txn, via }),
        2 => (any::<u8>(), 0u8..3, 0u8..3, any::<u8>()).prop_map(|(h, q, t, n)| Step::PrepareJoin { h, q, t, n }),
        1 => any::<u8>().prop_map(|h| Step::CacheClear { h }),
        1 => (any::<u8>(), 0u8..3, 0u8..3).prop_map(|(h, q, t)| Step::CacheRemove { h, q, t }),
        2 => Just(Step::RegistryClear),
        1 => (0u8..3, 0u8..3).prop_map(|(q, t)| Step::RegistryRemove { q, t }),
        2 => (any::<u8>(), prop_oneof![Just(KillWhen::Now), Just(KillWhen::OnQuery), Just(KillWhen::OnParse)]).prop_map(|(c, when)| Step::Kill { c, when }),
        1 => any::<u8>().prop_map(|c| Step::FailNextQuery { c }),
    ]
    .boxed()
}

fn case(thorough: bool) -> BoxedStrategy<Case> {
    let maxlen = if thorough { 50 } else { 30 };
    (
        1u8..=3,
        prop_oneof![Just(Method::Fast), Just(Method::Verified), Just(Method::Clean), prop_oneof![3 => 0u8..3, 1 => 6u8..8].prop_map(Method::Custom)],
        prop::collection::vec(step(), 1..=maxlen),
    )
        .prop_map(|(max_size, method, steps)| Case { max_size, method, steps })
        .boxed()
}

pub struct Pgx;

impl Engine for Pgx {
    const NAME: &'static str = "pgx";
    type Case = Case;

    fn properties() -> Vec<&'static str> {
        vec!["C16"]
    }

    fn rule(_prop: &str) -> String {
        "case = pool size 1..=3, a recycling method (Fast / Verified / Clean / Custom(sql)) and a history of get / return / take / resize / prepare_cached / prepare_typed_cached (directly or through a transaction; keys from 3 queries x 3 type lists) / cache clear / cache remove / registry clear / registry remove / server-side kill (now, on next query, on next Parse) / fail-next-query steps against an in-process scripted PostgreSQL wire server; distinct by hash of the case. Non-trivial: a cache hit on a recycled client, two keys that differ only in their types, or a registry call after a client with a non-empty cache left the pool".into()
    }

    fn assumptions(_prop: &str) -> Vec<String> {
        vec![
            "the scripted server (startup, simple query, Parse / Describe / Sync, Close, BEGIN / ROLLBACK) stands in for PostgreSQL; its fidelity is part of the trusted base".into(),
            "after every step the runtime is run to quiescence (yield loop), so 'killed before a get' means the client has seen the disconnect".into(),
        ]
    }

    fn stages(ctx: &Ctx) -> Vec<Stage<Case>> {
        let thorough = ctx.tier == Tier::Thorough;
        vec![Stage {
            name: "random".into(),
            cases: if thorough { 16 * 60000 } else { 16 * 3000 },
            strategy: case(thorough),
        }]
    }

    fn run(_ctx: &Ctx, case: &Case) -> Report {
        let srv: Srv = Arc::new(Mutex::new(Server::default()));
        let mut out = Out {
            violation: None,
            nontrivial: false,
            labels: vec![],
            step: 0,
        };
        let rt = tokio::runtime::Builder::new_current_thread().enable_all().build().expect("runtime");
        let r = catch_unwind(AssertUnwindSafe(|| rt.block_on(run_case(case, srv.clone(), &mut out))));
        if let Err(p) = r {
            if out.violation.is_none() {
                out.violation = Some(("panic".into(), format!("{:?}", classify_panic(p))));
            }
        }
        drop(rt);
        let trace = lock(&srv).trace.clone();
        out.labels.sort();
        out.labels.dedup();
        Report {
            violation: out.violation.map(|(oracle, detail)| Violation {
                oracle,
                step: out.step,
                detail,
                trace,
            }),
            nontrivial: out.nontrivial,
            labels: out.labels,
            known: vec![],
            inconclusive: None,
            executions: 1,
            sub_nontrivial: vec![],
        }
    }
}

fn main() {
    vcore::main_for::<Pgx>()
}
