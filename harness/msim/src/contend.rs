//! Lock contention: the only place where the pool calls user code under its lock
//! is the retain() predicate. `Contend` holds a retain() inside its predicate on one
//! thread and starts another operation on a second thread. A correct pool makes that
//! operation wait for the lock (or finish without needing it); one that treats a
//! contended lock as "nothing there" (try_lock) misbehaves exactly here. The verdicts
//! come from the usual monitors; the 30 ms grace period only decides how long the
//! second thread is given to run into the lock, never a verdict.

use std::sync::mpsc::{channel, RecvTimeoutError};
use std::sync::{Arc, Mutex};
use std::task::{Context, Poll, Waker};
use std::time::Duration;

use deadpool::managed::{RetainResult, Timeouts};
use vcore::pick;
use vcore::sched::{classify_panic, lock, set_current_op, PanicKind, WakeFlag};

use crate::case::*;
use crate::interp::*;
use crate::world::*;

enum InnerOut {
    Poll(GetFut, Option<GetResult>),
    Returned,
    Taken(Obj),
    Status(deadpool::Status),
    Resized,
    Closed,
}

impl<'a> Interp<'a> {
    pub(crate) fn contend(&mut self, pred: Pred, inner: Inner) {
        let Some(pool) = self.pool.clone() else { return };
        if !self.parked.is_empty() {
            return;
        }
        // without an idle object the predicate is never called: nothing to hold
        if self.idle_order().is_empty() {
            return;
        }
        self.labels.push(format!("contend:{:?}", inner).split(&['{', ' '][..]).next().unwrap_or("contend").to_string());
        let world = self.world.clone();
        // ---- thread A: retain, stopping inside its first predicate call
        let op_a = self.new_op(OpKind::Retain);
        let (in_lock_tx, in_lock_rx) = channel::<()>();
        let (go_tx, go_rx) = channel::<()>();
        let go_rx = Arc::new(Mutex::new(Some(go_rx)));
        let wa = world.clone();
        let pa = pool.clone();
        // the books are not compared: the other thread's operation follows at once
        let before: Option<(Option<deadpool::verif::ManagedSnapshot>, Vec<u32>)> = None;
        let (a_tx, a_rx) = channel::<Result<RetainResult<Obj>, PanicKind>>();
        let ha = std::thread::spawn(move || {
            set_current_op(op_a);
            let mut n: u32 = 0;
            let mut first = true;
            let r = std::panic::catch_unwind(std::panic::AssertUnwindSafe(|| {
                pa.retain(|obj: &Obj, m: deadpool::managed::Metrics| {
                    if first {
                        first = false;
                        let _ = in_lock_tx.send(());
                        if let Some(rx) = lock(&go_rx).take() {
                            let _ = rx.recv_timeout(Duration::from_secs(30));
                        }
                    }
                    let pos = n;
                    let keep = match pred {
                        Pred::Mask(mask) => (mask >> pos.min(15)) & 1 == 1,
                        Pred::EveryOther(f) => (n % 2 == 0) == f,
                        Pred::FirstK(k) => n < k as u32,
                        Pred::FalseAfter(j) => n < j as u32,
                    };
                    n += 1;
                    wa.w().on_pred(obj.id, keep, MetricsView::from(&m));
                    keep
                })
            }));
            let _ = a_tx.send(r.map_err(classify_panic));
        });
        if in_lock_rx.recv_timeout(Duration::from_secs(20)).is_err() {
            let _ = go_tx.send(());
            let _ = ha.join();
            self.inconclusive = Some("contend: retain never reached its predicate".into());
            return;
        }
        // ---- thread B: the inner operation
        let (b_tx, b_rx) = channel::<Result<InnerOut, PanicKind>>();
        let mut get_slot: Option<usize> = None;
        let mut ret_info: Option<(u32, bool)> = None;
        let mut take_id: Option<u32> = None;
        let mut resize_n: Option<usize> = None;
        let op_b;
        let job: Box<dyn FnOnce() -> InnerOut + Send> = match inner {
            Inner::Get { zero_wait } => {
                op_b = self.new_op(OpKind::Get);
                let timeouts = Timeouts {
                    wait: if zero_wait { Some(Duration::ZERO) } else { None },
                    create: None,
                    recycle: None,
                };
                let p2 = pool.clone();
                let mut fut: GetFut = Box::pin(async move { p2.timeout_get(&timeouts).await });
                let flag = WakeFlag::new();
                self.gets.push(GetSlot {
                    started_at: std::time::Instant::now(),
                    iso: None,
                    op: op_b,
                    fut: None,
                    flag: flag.clone(),
                    state: GState::OnWorker,
                    zero_wait,
                    polls: 1,
                    start_free: None,
                    after_close: self.close_done,
                    waiting_at_close: false,
                });
                get_slot = Some(self.gets.len() - 1);
                Box::new(move || {
                    let waker = Waker::from(flag);
                    let mut cx = Context::from_waker(&waker);
                    match fut.as_mut().poll(&mut cx) {
                        Poll::Pending => InnerOut::Poll(fut, None),
                        Poll::Ready(r) => InnerOut::Poll(fut, Some(r)),
                    }
                })
            }
            Inner::Return { h } => {
                let Some(i) = pick(h, self.held.len()) else {
                    let _ = go_tx.send(());
                    self.finish_retain(ha, a_rx, op_a, before);
                    return;
                };
                let hobj = self.held.remove(i);
                op_b = self.new_op(OpKind::Return);
                {
                    let mut w = self.world.w();
                    if let Some(o) = w.objs.get_mut(hobj.id as usize) {
                        o.loc = Loc::InPool;
                        o.in_hand = Some(op_b);
                    }
                }
                ret_info = Some((hobj.id, self.close_done));
                let obj = hobj.obj;
                Box::new(move || {
                    drop(obj);
                    InnerOut::Returned
                })
            }
            Inner::Take { h } => {
                let Some(i) = pick(h, self.held.len()) else {
                    let _ = go_tx.send(());
                    self.finish_retain(ha, a_rx, op_a, before);
                    return;
                };
                let hobj = self.held.remove(i);
                op_b = self.new_op(OpKind::Take);
                {
                    let mut w = self.world.w();
                    if let Some(o) = w.objs.get_mut(hobj.id as usize) {
                        o.loc = Loc::Out;
                    }
                    w.taking += 1;
                }
                take_id = Some(hobj.id);
                let obj = hobj.obj;
                Box::new(move || InnerOut::Taken(deadpool::managed::Object::take(obj)))
            }
            Inner::Status => {
                op_b = self.new_op(OpKind::Status);
                let p2 = pool.clone();
                Box::new(move || InnerOut::Status(p2.status()))
            }
            Inner::Close => {
                op_b = self.new_op(OpKind::Close);
                if !self.close_started {
                    self.c06_close_step = Some(self.step);
                }
                self.close_started = true;
                self.events_for_rest += 1;
                let p2 = pool.clone();
                Box::new(move || {
                    p2.close();
                    InnerOut::Closed
                })
            }
            Inner::Resize { n } => {
                op_b = self.new_op(OpKind::Resize);
                self.resize_started = true;
                resize_n = Some(n as usize);
                let p2 = pool.clone();
                Box::new(move || {
                    p2.resize(n as usize);
                    InnerOut::Resized
                })
            }
        };
        let wb = self.world.clone();
        let hb = std::thread::spawn(move || {
            set_current_op(op_b);
            // no parking on this thread, but the points it passes are recorded (admission)
            let wlog = wb.clone();
            let _ = deadpool::verif::set_hook(Some(Box::new(move |label| {
                let mut w = wlog.w();
                w.log.push(Ev::Point { op: op_b, label });
                if label == "get.permit" {
                    w.admitted.push(op_b);
                }
            })));
            let r = std::panic::catch_unwind(std::panic::AssertUnwindSafe(job));
            let _ = deadpool::verif::set_hook(None);
            let _ = b_tx.send(r.map_err(classify_panic));
        });
        // give B time to run into the lock (or to finish if it does not need it)
        let early = match b_rx.recv_timeout(Duration::from_millis(30)) {
            Ok(r) => Some(r),
            Err(RecvTimeoutError::Timeout) => None,
            Err(RecvTimeoutError::Disconnected) => None,
        };
        self.labels.push(if early.is_some() { "contend:inner-finished-under-lock" } else { "contend:inner-blocked-on-lock" }.into());
        let _ = go_tx.send(());
        self.finish_retain(ha, a_rx, op_a, before);
        let b_res = match early {
            Some(r) => Some(r),
            None => b_rx.recv_timeout(Duration::from_secs(20)).ok(),
        };
        let _ = hb.join();
        let Some(b_res) = b_res else {
            self.inconclusive = Some("contend: the inner operation did not finish within 20 s".into());
            return;
        };
        match b_res {
            Err(pk) => {
                if let Some(g) = get_slot {
                    self.get_panicked(g, pk);
                } else {
                    if take_id.is_some() {
                        self.world.w().taking -= 1;
                    }
                    self.op_panicked("an operation racing with retain", pk);
                }
            }
            Ok(InnerOut::Poll(fut, None)) => {
                let g = get_slot.unwrap();
                self.gets[g].fut = Some(fut);
                self.poll_pending(g);
            }
            Ok(InnerOut::Poll(fut, Some(r))) => {
                let g = get_slot.unwrap();
                let op = self.gets[g].op;
                let _ = self.sched.run_inline(op, move || drop(fut));
                self.get_done(g, r);
            }
            Ok(InnerOut::Returned) => {
                let (id, closed_before) = ret_info.unwrap();
                self.return_done(id, closed_before);
            }
            Ok(InnerOut::Taken(o)) => self.take_done(take_id.unwrap(), o),
            Ok(InnerOut::Status(st)) => {
                // status() needs the lock, so it reports the state after the retain finished;
                // nothing else has run since
                if let Some(now) = self.pool.as_ref().map(|p| p.status()) {
                    if (st.max_size, st.size, st.available, st.waiting) != (now.max_size, now.size, now.available, now.waiting) {
                        self.flag(
                            "status-under-contention",
                            &["C11"],
                            format!("status() called while retain() held the pool's lock returned {:?}, the pool's state is {:?}", st, now),
                        );
                    }
                }
            }
            Ok(InnerOut::Resized) => self.resize_done(resize_n.unwrap(), None),
            Ok(InnerOut::Closed) => self.close_finished(),
        }
    }

    fn finish_retain(
        &mut self,
        ha: std::thread::JoinHandle<()>,
        a_rx: std::sync::mpsc::Receiver<Result<RetainResult<Obj>, PanicKind>>,
        op_a: u32,
        before: Option<(Option<deadpool::verif::ManagedSnapshot>, Vec<u32>)>,
    ) {
        let r = a_rx.recv_timeout(Duration::from_secs(40));
        let _ = ha.join();
        match r {
            Ok(Ok(rr)) => self.retain_done(op_a, rr, before),
            Ok(Err(pk)) => self.op_panicked("retain", pk),
            Err(_) => self.inconclusive = Some("contend: retain did not finish".into()),
        }
    }
}
