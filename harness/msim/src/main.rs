//! thin binary around the `msim` library (see lib.rs)

fn main() {
    vcore::main_for::<msim::Msim>()
}
