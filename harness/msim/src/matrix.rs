//! C03 part A: for one configuration and one quiescent prefix state, enumerate
//! every await point the next get() can be suspended at, times every way of
//! abandoning it there, and run each as an ordinary case.

use vcore::drive::{hash_json, Ctx, Report, Violation};

use crate::case::*;
use crate::interp::Interp;

#[derive(Clone, Copy, Debug, PartialEq, Eq)]
pub enum Point {
    SlotWait,
    PreRecycle(usize),
    Recycle,
    PostRecycle(usize),
    Create,
    PostCreate(usize),
}

#[derive(Clone, Copy, Debug, PartialEq, Eq)]
pub enum Mode {
    /// suspended there, then the future is dropped
    Drop,
    /// panics there without having been suspended
    Panic,
    /// suspended there, resumed, then panics
    GatePanic,
}

pub fn expand(case: &Case) -> Vec<(String, Case)> {
    let Some(m) = case.matrix else { return vec![] };
    let cfg = &case.cfg;
    let max = cfg.max_size as usize;
    let idle = (m.idle as usize).min(max);
    let held = (m.held as usize).min(max - idle);
    let n0 = idle + held;
    let mut prefix: Vec<Step> = vec![];
    for _ in 0..n0 {
        prefix.push(Step::StartGet { zero_wait: false, pause: None });
    }
    for _ in 0..idle {
        prefix.push(Step::Return { h: 0, pause: None });
    }
    let start = Step::StartGet { zero_wait: false, pause: None };
    let mut out = vec![];
    if held == max {
        // the call can only wait for a slot
        let mut steps = prefix.clone();
        steps.push(start);
        steps.push(Step::Cancel { g: 0, pause: None });
        steps.push(Step::Status);
        out.push((
            "SlotWait:Drop:r0".to_string(),
            Case { cfg: cfg.clone(), script: Script::default(), steps, matrix: None, sweep: None, timed: None },
        ));
        // with a second waiter behind it that must be served afterwards
        let mut steps = prefix.clone();
        steps.push(start);
        steps.push(start);
        steps.push(Step::Cancel { g: 0, pause: None });
        steps.push(Step::Return { h: 0, pause: None });
        steps.push(Step::PollWoken { pause: None });
        out.push((
            "SlotWait:Drop+waiter:r0".to_string(),
            Case { cfg: cfg.clone(), script: Script::default(), steps, matrix: None, sweep: None, timed: None },
        ));
        return out;
    }
    let (npc, npr, npo) = (cfg.post_create.len(), cfg.pre_recycle.len(), cfg.post_recycle.len());
    let reject = if m.reject_backend { Out::ErrBackend } else { Out::ErrMsg };
    for r in 0..=idle.min(2) {
        let recycle_attempt = idle > r;
        let points: Vec<Point> = if recycle_attempt {
            (0..npr)
                .map(Point::PreRecycle)
                .chain(std::iter::once(Point::Recycle))
                .chain((0..npo).map(Point::PostRecycle))
                .collect()
        } else {
            std::iter::once(Point::Create).chain((0..npc).map(Point::PostCreate)).collect()
        };
        for pt in points {
            let is_async = match pt {
                Point::PreRecycle(i) => cfg.pre_recycle[i] == HookKind::Async,
                Point::PostRecycle(i) => cfg.post_recycle[i] == HookKind::Async,
                Point::PostCreate(i) => cfg.post_create[i] == HookKind::Async,
                _ => true,
            };
            let modes: &[Mode] = if is_async { &[Mode::Drop, Mode::Panic, Mode::GatePanic] } else { &[Mode::Panic] };
            for &mode in modes {
                let outcome = match mode {
                    Mode::Drop => Out::Gate(Fin::Ok),
                    Mode::Panic => Out::Panic,
                    Mode::GatePanic => Out::Gate(Fin::Panic),
                };
                let mut script = Script {
                    create: vec![Out::Ok; n0],
                    recycle: vec![reject; r],
                    post_create: vec![vec![Out::Ok; n0]; npc],
                    pre_recycle: vec![vec![Out::Ok; r]; npr],
                    post_recycle: vec![vec![]; npo],
                    detach_panic_at: None,
                };
                match pt {
                    Point::Create => script.create.push(outcome),
                    Point::PostCreate(i) => script.post_create[i].push(outcome),
                    Point::Recycle => script.recycle.push(outcome),
                    Point::PreRecycle(i) => script.pre_recycle[i].push(outcome),
                    Point::PostRecycle(i) => script.post_recycle[i].push(outcome),
                    Point::SlotWait => {}
                }
                let mut steps = prefix.clone();
                steps.push(start);
                match mode {
                    Mode::Drop => steps.push(Step::Cancel { g: 0, pause: None }),
                    Mode::Panic => {}
                    Mode::GatePanic => {
                        steps.push(Step::OpenGate { i: 0 });
                        steps.push(Step::PollWoken { pause: None });
                    }
                }
                steps.push(Step::Status);
                out.push((
                    format!("{:?}:{:?}:r{}", pt, mode, r),
                    Case { cfg: cfg.clone(), script, steps, matrix: None, sweep: None, timed: None },
                ));
            }
        }
    }
    out
}

pub fn run(ctx: &Ctx, case: &Case) -> Report {
    let subs = expand(case);
    let mut rep = Report::default();
    rep.executions = subs.len() as u64;
    for (label, sub) in subs {
        let r = Interp::new(ctx, &sub).run();
        rep.labels.push(format!("crash:{}", label.split(":r").next().unwrap_or("")));
        rep.labels.push(format!("crash-rejects:r{}", label.rsplit(":r").next().unwrap_or("")));
        for l in r.labels {
            if l.starts_with("iso-differential") {
                rep.labels.push(l);
            }
        }
        if r.nontrivial {
            rep.sub_nontrivial.push(hash_json(&sub));
        }
        if let Some(w) = r.inconclusive {
            rep.inconclusive = Some(w);
            break;
        }
        if let Some(v) = r.violation {
            rep.violation = Some(Violation {
                oracle: v.oracle,
                step: v.step,
                detail: format!(
                    "crash point {}: {} | concrete case: {}",
                    label,
                    v.detail,
                    serde_json::to_string(&sub).unwrap_or_default()
                ),
                trace: v.trace,
            });
            break;
        }
    }
    rep.labels.sort();
    rep.labels.dedup();
    rep
}
