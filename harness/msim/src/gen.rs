//! Proptest strategies for managed-pool cases, with per-property profiles.

use proptest::prelude::*;
use proptest::strategy::BoxedStrategy;

use crate::case::*;

#[derive(Clone, Debug)]
pub struct Profile {
    pub max_size: (u8, u8),
    pub hooks_max: usize,
    /// probability (percent) that a scripted outcome is not plain Ok
    pub fault_pct: u32,
    pub panics: bool,
    /// scripts may make a Manager::detach call of a get() panic
    pub panics_in_detach: bool,
    pub gates: bool,
    pub nevers: bool,
    pub steps: (usize, usize),
    pub pause_pct: u32,
    // step weights
    pub w_get: u32,
    pub w_get0: u32,
    pub w_getnort: u32,
    pub w_poll: u32,
    pub w_pollwoken: u32,
    pub w_cancel: u32,
    pub w_gate: u32,
    pub w_return: u32,
    pub w_take: u32,
    pub w_retain: u32,
    pub w_resize: u32,
    pub w_close: u32,
    pub w_status: u32,
    pub w_resume: u32,
    pub w_droppool: u32,
    pub resize_max: u8,
}

impl Profile {
    pub fn base() -> Self {
        Profile {
            max_size: (0, 4),
            hooks_max: 2,
            fault_pct: 35,
            panics: true,
            panics_in_detach: false,
            gates: true,
            nevers: true,
            steps: (1, 30),
            pause_pct: 25,
            w_get: 10,
            w_get0: 5,
            w_getnort: 1,
            w_poll: 4,
            w_pollwoken: 8,
            w_cancel: 4,
            w_gate: 6,
            w_return: 10,
            w_take: 2,
            w_retain: 2,
            w_resize: 0,
            w_close: 1,
            w_status: 1,
            w_resume: 8,
            w_droppool: 0,
            resize_max: 6,
        }
    }
}

fn fin(panics: bool) -> BoxedStrategy<Fin> {
    if panics {
        prop_oneof![
            3 => Just(Fin::Ok),
            2 => Just(Fin::ErrMsg),
            2 => Just(Fin::ErrBackend),
            1 => Just(Fin::Panic),
        ]
        .boxed()
    } else {
        prop_oneof![3 => Just(Fin::Ok), 2 => Just(Fin::ErrMsg), 2 => Just(Fin::ErrBackend)].boxed()
    }
}

pub fn out(p: &Profile) -> BoxedStrategy<Out> {
    let ok = 100 - p.fault_pct.min(99);
    let f = p.fault_pct.max(1);
    let mut alts: Vec<(u32, BoxedStrategy<Out>)> = vec![
        (ok * 10, Just(Out::Ok).boxed()),
        (f * 3, Just(Out::ErrMsg).boxed()),
        (f * 3, Just(Out::ErrBackend).boxed()),
    ];
    if p.panics {
        alts.push((f, Just(Out::Panic).boxed()));
    }
    if p.gates {
        alts.push((f * 3, fin(p.panics).prop_map(Out::Gate).boxed()));
    }
    if p.nevers {
        alts.push(((f / 2).max(1), Just(Out::Never).boxed()));
    }
    proptest::strategy::Union::new_weighted(alts).boxed()
}

fn hooks(max: usize) -> BoxedStrategy<Vec<HookKind>> {
    prop::collection::vec(
        prop_oneof![Just(HookKind::Sync), Just(HookKind::Async)],
        0..=max,
    )
    .boxed()
}

pub fn cfg(p: &Profile) -> BoxedStrategy<Cfg> {
    (
        p.max_size.0..=p.max_size.1,
        any::<bool>(),
        hooks(p.hooks_max),
        hooks(p.hooks_max),
        hooks(p.hooks_max),
        0u8..4,
    )
        .prop_map(|(max_size, lifo, post_create, pre_recycle, post_recycle, via)| Cfg {
            max_size,
            lifo,
            post_create,
            pre_recycle,
            post_recycle,
            via,
        })
        .boxed()
}

pub fn script(p: &Profile, c: &Cfg) -> BoxedStrategy<Script> {
    let o = out(p);
    let v = |n: usize| prop::collection::vec(o.clone(), 0..=n).boxed();
    let vv = |k: usize, n: usize| prop::collection::vec(v(n), k..=k).boxed();
    (
        v(12),
        v(12),
        vv(c.post_create.len(), 8),
        vv(c.pre_recycle.len(), 8),
        vv(c.post_recycle.len(), 8),
        if p.panics_in_detach { prop::option::weighted(0.15, 0u8..3).boxed() } else { Just(None).boxed() },
    )
        .prop_map(|(create, recycle, post_create, pre_recycle, post_recycle, detach_panic_at)| Script {
            create,
            recycle,
            post_create,
            pre_recycle,
            post_recycle,
            detach_panic_at,
        })
        .boxed()
}

fn pause(p: &Profile) -> BoxedStrategy<Option<u8>> {
    if p.pause_pct == 0 {
        Just(None).boxed()
    } else {
        prop::option::weighted(p.pause_pct as f64 / 100.0, 0u8..7).boxed()
    }
}

pub fn pred() -> BoxedStrategy<Pred> {
    prop_oneof![
        4 => any::<u16>().prop_map(Pred::Mask),
        1 => any::<bool>().prop_map(Pred::EveryOther),
        1 => (0u8..4).prop_map(Pred::FirstK),
        1 => (0u8..4).prop_map(Pred::FalseAfter),
    ]
    .boxed()
}

pub fn step(p: &Profile) -> BoxedStrategy<Step> {
    let pa = pause(p);
    let mut alts: Vec<(u32, BoxedStrategy<Step>)> = vec![];
    let mut add = |w: u32, s: BoxedStrategy<Step>| {
        if w > 0 {
            alts.push((w, s));
        }
    };
    add(p.w_get, pa.clone().prop_map(|pause| Step::StartGet { zero_wait: false, pause }).boxed());
    add(p.w_get0, pa.clone().prop_map(|pause| Step::StartGet { zero_wait: true, pause }).boxed());
    add(p.w_getnort, any::<bool>().prop_map(|zero_wait| Step::GetNoRuntime { zero_wait }).boxed());
    add(p.w_poll, (any::<u8>(), pa.clone()).prop_map(|(g, pause)| Step::Poll { g, pause }).boxed());
    add(p.w_pollwoken, pa.clone().prop_map(|pause| Step::PollWoken { pause }).boxed());
    add(p.w_cancel, (any::<u8>(), pa.clone()).prop_map(|(g, pause)| Step::Cancel { g, pause }).boxed());
    add(p.w_gate, any::<u8>().prop_map(|i| Step::OpenGate { i }).boxed());
    add(p.w_return, (any::<u8>(), pa.clone()).prop_map(|(h, pause)| Step::Return { h, pause }).boxed());
    add(p.w_take, (any::<u8>(), pa.clone()).prop_map(|(h, pause)| Step::Take { h, pause }).boxed());
    add(p.w_retain, (pred(), pa.clone()).prop_map(|(pred, pause)| Step::Retain { pred, pause }).boxed());
    add(p.w_resize, (0u8..=p.resize_max, pa.clone()).prop_map(|(n, pause)| Step::Resize { n, pause }).boxed());
    add(p.w_close, pa.clone().prop_map(|pause| Step::Close { pause }).boxed());
    add(p.w_status, Just(Step::Status).boxed());
    if p.pause_pct > 0 {
        add(p.w_status, (0u8..2).prop_map(|pause| Step::StatusAt { pause }).boxed());
    }
    if p.pause_pct > 0 {
        add(p.w_resume, (any::<u8>(), prop::option::weighted(0.25, 0u8..4)).prop_map(|(p, pause)| Step::Resume { p, pause }).boxed());
    }
    add(p.w_droppool, Just(Step::DropPool).boxed());
    proptest::strategy::Union::new_weighted(alts).boxed()
}

pub fn case(p: Profile) -> BoxedStrategy<Case> {
    let p2 = p.clone();
    cfg(&p)
        .prop_flat_map(move |c| {
            let p3 = p2.clone();
            (
                Just(c.clone()),
                script(&p3, &c),
                prop::collection::vec(step(&p3), p3.steps.0..=p3.steps.1),
            )
        })
        .prop_map(|(cfg, script, steps)| Case { cfg, script, steps, matrix: None, sweep: None, timed: None })
        .boxed()
}

pub fn profile_for(prop: &str, thorough: bool) -> Profile {
    let mut p = Profile::base();
    if thorough {
        p.steps = (1, 60);
    }
    match prop {
        "C01" => {}
        "C02" => {
            p.panics_in_detach = true;
            p.fault_pct = 45;
            p.w_get = 14;
            p.w_cancel = 6;
            p.w_close = 1;
        }
        "C11" => {
            p.w_resize = 3;
            p.w_status = 3;
        }
        "C06" => {
            p.w_resize = 2;
            p.w_close = 5;
            p.w_droppool = 1;
            p.pause_pct = 35;
        }
        "C07" => {
            p.w_resize = 8;
            p.w_close = 0;
            p.fault_pct = 20;
            p.max_size = (0, 3);
        }
        "C09" => {
            p.max_size = (1, 5);
            p.fault_pct = 15;
            p.w_get = 14;
            p.w_return = 14;
            p.w_take = 5;
            p.w_retain = 6;
            p.w_resize = 2;
            p.w_close = 1;
        }
        "C08" => {
            p.pause_pct = 0;
            p.max_size = (1, 5);
            p.w_resize = 2;
            p.w_retain = 3;
            p.w_take = 2;
            p.w_return = 14;
            p.panics = true;
            p.w_close = 0;
        }
        "C04" => {
            p.pause_pct = 0;
            p.max_size = (1, 4);
            p.fault_pct = 50;
            p.w_close = 0;
            p.w_take = 1;
            p.w_retain = 0;
        }
        "C13" => {
            p.pause_pct = 0;
            p.max_size = (1, 3);
            p.fault_pct = 25;
            p.w_close = 0;
            p.w_retain = 3;
            p.w_return = 14;
            // "the creation instant never changes" is stated for every pooled object: idle
            // objects that survive a resize are included
            p.w_resize = 2;
        }
        "C03" => {
            p.fault_pct = 45;
            p.w_cancel = 10;
            p.w_gate = 4;
            p.w_close = 0;
        }
        _ => {}
    }
    p
}

/// C03 part A: configurations and prefix states for the crash-point matrix
pub fn matrix_case() -> BoxedStrategy<Case> {
    let p = Profile::base();
    (
        1u8..=4,
        any::<bool>(),
        hooks(p.hooks_max),
        hooks(p.hooks_max),
        hooks(p.hooks_max),
        0u8..=3,
        0u8..=3,
        any::<bool>(),
    )
        .prop_map(|(max_size, lifo, post_create, pre_recycle, post_recycle, idle, held, reject_backend)| {
            let idle = idle.min(max_size);
            let held = held.min(max_size - idle);
            Case {
                cfg: Cfg { max_size, lifo, post_create, pre_recycle, post_recycle, via: 0 },
                script: Script::default(),
                steps: vec![],
                matrix: Some(MatrixSpec { idle, held, reject_backend }),
                sweep: None,
            timed: None,
            }
        })
        .boxed()
}

/// pause-free histories for the bounded-preemption sweep
pub fn sweep_case(prop: &str, thorough: bool) -> BoxedStrategy<Case> {
    let mut p = profile_for(prop, false);
    p.pause_pct = 0;
    p.steps = (2, if thorough { 12 } else { 9 });
    p.nevers = false;
    case(p)
        .prop_map(|mut c| {
            c.sweep = Some(1);
            c
        })
        .boxed()
}

/// short pause-free histories for the sweep with two pauses (preemption bound 2)
pub fn sweep2_case(prop: &str, thorough: bool) -> BoxedStrategy<Case> {
    let mut p = profile_for(prop, false);
    p.pause_pct = 0;
    p.steps = (2, if thorough { 6 } else { 5 });
    p.nevers = false;
    case(p)
        .prop_map(|mut c| {
            c.sweep = Some(2);
            c
        })
        .boxed()
}

/// C04: recycle / create timeouts on a virtual clock (delegated to the tsim interpreter)
pub fn timed_case(thorough: bool) -> BoxedStrategy<Case> {
    tsim::managed_runtime_case(thorough)
        .prop_map(|t| Case {
            cfg: Cfg { max_size: t.max_size, lifo: false, post_create: vec![], pre_recycle: vec![], post_recycle: vec![], via: 0 },
            script: Script::default(),
            steps: vec![],
            matrix: None,
            sweep: None,
            timed: Some(t),
        })
        .boxed()
}

/// histories (task level) with a few `Contend` steps: an operation started while
/// retain() holds the pool's lock inside its predicate
pub fn contend_case(prop: &str) -> BoxedStrategy<Case> {
    let mut p = profile_for(prop, false);
    p.pause_pct = 0;
    p.max_size = (2, 4);
    p.fault_pct = 10;
    p.steps = (3, 14);
    p.w_return = 16;
    p.w_get = 14;
    p.w_close = 0;
    p.nevers = false;
    let w_close = if prop == "C06" { 6 } else { 0 };
    let inner = proptest::strategy::Union::new_weighted(
        vec![
            (5u32, any::<bool>().prop_map(|zero_wait| Inner::Get { zero_wait }).boxed()),
            (3, any::<u8>().prop_map(|h| Inner::Return { h }).boxed()),
            (1, any::<u8>().prop_map(|h| Inner::Take { h }).boxed()),
            (1, Just(Inner::Status).boxed()),
            (w_close, Just(Inner::Close).boxed()),
        ]
        .into_iter()
        .filter(|(w, _)| *w > 0)
        .collect::<Vec<_>>(),
    );
    let contend = (pred(), inner).prop_map(|(pred, inner)| Step::Contend { pred, inner });
    (case(p), prop::collection::vec((any::<u8>(), contend), 1..=2))
        .prop_map(|(mut c, ins)| {
            for (pos, st) in ins {
                let i = ((pos as usize) * (c.steps.len() + 1)) >> 8;
                // contention is only interesting once something is idle: bias towards the end
                let i = i.max(c.steps.len() / 2);
                c.steps.insert(i.min(c.steps.len()), st);
            }
            c
        })
        .boxed()
}

/// C07: a pool populated with idle objects, then two to four resize calls that overlap each
/// other (thread-level pauses inside them) and nothing else - the stretch in which the outcome
/// has to be that of some serial order of the calls
pub fn resize_overlap_case() -> BoxedStrategy<Case> {
    let p = Profile::base();
    (1u8..=4, any::<bool>(), hooks(p.hooks_max), hooks(p.hooks_max), hooks(p.hooks_max), 0u8..=4, 0u8..=4)
        .prop_flat_map(|(max_size, lifo, post_create, pre_recycle, post_recycle, out, kept)| {
            let resize = (0u8..=5, prop::option::weighted(0.7, 0u8..7)).prop_map(|(n, pause)| Step::Resize { n, pause });
            let tail = prop::collection::vec(
                prop_oneof![
                    6 => resize,
                    2 => (any::<u8>(), prop::option::weighted(0.2, 0u8..4)).prop_map(|(p, pause)| Step::Resume { p, pause }),
                    1 => Just(Step::Status),
                ],
                2..=6,
            );
            (Just((max_size, lifo, post_create, pre_recycle, post_recycle, out, kept)), tail)
        })
        .prop_map(|((max_size, lifo, post_create, pre_recycle, post_recycle, out, kept), tail)| {
            let n_get = out.min(max_size);
            let n_ret = n_get.saturating_sub(kept.min(n_get));
            let mut steps = vec![];
            for _ in 0..n_get {
                steps.push(Step::StartGet { zero_wait: false, pause: None });
            }
            for _ in 0..n_ret {
                steps.push(Step::Return { h: 0, pause: None });
            }
            steps.extend(tail);
            Case {
                cfg: Cfg { max_size, lifo, post_create, pre_recycle, post_recycle, via: 0 },
                script: Script::default(),
                steps,
                matrix: None,
                sweep: None,
                timed: None,
            }
        })
        .boxed()
}

/// C06: a pool whose idle queue has been rotated (so that the ring buffer behind it has wrapped)
/// is closed, possibly with a few objects still out, and used a little afterwards
pub fn rotate_then_close_case() -> BoxedStrategy<Case> {
    (2u8..=5, any::<bool>(), 0u8..=12, 0u8..=2, prop::option::weighted(0.4, 0u8..6), 0u8..4)
        .prop_flat_map(|(max_size, lifo, rotations, keep_out, close_pause, via)| {
            let tail = prop::collection::vec(
                prop_oneof![
                    3 => any::<u8>().prop_map(|h| Step::Return { h, pause: None }),
                    2 => Just(Step::StartGet { zero_wait: false, pause: None }),
                    1 => Just(Step::Status),
                    2 => any::<u8>().prop_map(|p| Step::Resume { p, pause: None }),
                ],
                0..=4,
            );
            (Just((max_size, lifo, rotations, keep_out, close_pause, via)), tail)
        })
        .prop_map(|((max_size, lifo, rotations, keep_out, close_pause, via), tail)| {
            let mut steps = vec![];
            for _ in 0..max_size {
                steps.push(Step::StartGet { zero_wait: false, pause: None });
            }
            for _ in 0..max_size {
                steps.push(Step::Return { h: 0, pause: None });
            }
            for _ in 0..rotations {
                steps.push(Step::StartGet { zero_wait: false, pause: None });
                steps.push(Step::Return { h: 0, pause: None });
            }
            for _ in 0..keep_out.min(max_size - 1) {
                steps.push(Step::StartGet { zero_wait: false, pause: None });
            }
            steps.push(Step::Close { pause: close_pause });
            steps.extend(tail);
            Case {
                cfg: Cfg { max_size, lifo, post_create: vec![], pre_recycle: vec![], post_recycle: vec![], via },
                script: Script::default(),
                steps,
                matrix: None,
                sweep: None,
                timed: None,
            }
        })
        .boxed()
}
