//! Case types of the managed-pool interpreter (also the replay format).

use serde::{Deserialize, Serialize};

#[derive(Clone, Copy, Debug, Serialize, Deserialize, PartialEq, Eq, Hash)]
pub enum HookKind {
    Sync,
    Async,
}

/// Final outcome of a scripted call.
#[derive(Clone, Copy, Debug, Serialize, Deserialize, PartialEq, Eq, Hash)]
pub enum Fin {
    Ok,
    ErrMsg,
    ErrBackend,
    Panic,
}

/// Scripted outcome of the n-th call of a manager method or hook.
#[derive(Clone, Copy, Debug, Serialize, Deserialize, PartialEq, Eq, Hash)]
pub enum Out {
    Ok,
    ErrMsg,
    ErrBackend,
    Panic,
    /// stay pending until an `OpenGate` step, then finish with the given outcome
    Gate(Fin),
    /// never completes
    Never,
}

#[derive(Clone, Debug, Serialize, Deserialize, PartialEq, Eq, Hash)]
pub struct Cfg {
    pub max_size: u8,
    pub lifo: bool,
    pub post_create: Vec<HookKind>,
    pub pre_recycle: Vec<HookKind>,
    pub post_recycle: Vec<HookKind>,
    /// order of the builder calls: 0 max_size, queue_mode, hooks; 1 queue_mode, max_size,
    /// hooks; 2 hooks, then config(PoolConfig); 3 config(PoolConfig), then hooks
    #[serde(default)]
    pub via: u8,
}

#[derive(Clone, Debug, Default, Serialize, Deserialize, PartialEq, Eq, Hash)]
pub struct Script {
    pub create: Vec<Out>,
    pub recycle: Vec<Out>,
    pub post_create: Vec<Vec<Out>>,
    pub pre_recycle: Vec<Vec<Out>>,
    pub post_recycle: Vec<Vec<Out>>,
    /// the k-th Manager::detach call made on behalf of a get() panics (a manager whose detach
    /// misbehaves: the get() may panic with it, the pool must stay usable)
    #[serde(default)]
    pub detach_panic_at: Option<u8>,
}

/// Predicate shapes for `retain`.
#[derive(Clone, Copy, Debug, Serialize, Deserialize, PartialEq, Eq, Hash)]
pub enum Pred {
    /// keep the idle object at queue position i iff bit i is set
    Mask(u16),
    /// stateful: keep every other object starting with keep / drop
    EveryOther(bool),
    /// stateful: keep the first k objects it is asked about
    FirstK(u8),
    /// stateful: returns true for the first j calls, false afterwards
    FalseAfter(u8),
}

#[derive(Clone, Copy, Debug, Serialize, Deserialize, PartialEq, Eq, Hash)]
pub enum Step {
    StartGet { zero_wait: bool, pause: Option<u8> },
    /// timeout_get() with a recycle timeout on this runtime-less pool: must be refused with
    /// NoRuntimeSpecified before anything is touched
    GetNoRuntime { zero_wait: bool },
    Poll { g: u8, pause: Option<u8> },
    PollWoken { pause: Option<u8> },
    Cancel { g: u8, pause: Option<u8> },
    OpenGate { i: u8 },
    Return { h: u8, pause: Option<u8> },
    Take { h: u8, pause: Option<u8> },
    Retain { pred: Pred, pause: Option<u8> },
    Resize { n: u8, pause: Option<u8> },
    Close { pause: Option<u8> },
    Status,
    Resume { p: u8, pause: Option<u8> },
    /// drop every pool handle the harness owns (objects keep only weak references)
    DropPool,
    /// status() run as an operation that parks at its `pause`-th schedule point
    StatusAt { pause: u8 },
    /// retain(pred) is held inside its predicate (the pool's lock is taken) while `inner`
    /// is started on another thread; then both are let go
    Contend { pred: Pred, inner: Inner },
}

/// operation that is started while another thread holds the pool's lock
#[derive(Clone, Copy, Debug, Serialize, Deserialize, PartialEq, Eq, Hash)]
pub enum Inner {
    Get { zero_wait: bool },
    Return { h: u8 },
    Take { h: u8 },
    Status,
    Resize { n: u8 },
    Close,
}

#[derive(Clone, Debug, Serialize, Deserialize, PartialEq, Eq, Hash)]
pub struct Case {
    pub cfg: Cfg,
    pub script: Script,
    pub steps: Vec<Step>,
    /// C03 part A: enumerate every crash point of the next get() for this prefix
    #[serde(default, skip_serializing_if = "Option::is_none")]
    pub matrix: Option<MatrixSpec>,
    /// bounded-preemption sweep: `steps` is pause-free; every placement of one pause
    /// (step, schedule point, resume after j further steps) is executed
    #[serde(default, skip_serializing_if = "Option::is_none")]
    pub sweep: Option<u8>,
    /// C04 "times out" clause: a virtual-clock case run by the tsim engine's interpreter
    #[serde(default, skip_serializing_if = "Option::is_none")]
    pub timed: Option<tsim::Case>,
}

/// Quiescent prefix state for the crash-point matrix.
#[derive(Clone, Copy, Debug, Serialize, Deserialize, PartialEq, Eq, Hash)]
pub struct MatrixSpec {
    /// idle objects before the call
    pub idle: u8,
    /// objects in caller hands before the call
    pub held: u8,
    /// how the earlier idle objects of the same call are rejected (false: Message, true: Backend)
    pub reject_backend: bool,
}

impl Step {
    /// the same step, parking at its k-th schedule point
    pub fn with_pause(&self, k: u8) -> Option<Step> {
        let pause = Some(k);
        Some(match *self {
            Step::StartGet { zero_wait, .. } => Step::StartGet { zero_wait, pause },
            Step::Poll { g, .. } => Step::Poll { g, pause },
            Step::PollWoken { .. } => Step::PollWoken { pause },
            Step::Cancel { g, .. } => Step::Cancel { g, pause },
            Step::Return { h, .. } => Step::Return { h, pause },
            Step::Take { h, .. } => Step::Take { h, pause },
            Step::Retain { pred, .. } => Step::Retain { pred, pause },
            Step::Resize { n, .. } => Step::Resize { n, pause },
            Step::Close { .. } => Step::Close { pause },
            _ => return None,
        })
    }

    pub fn kind(&self) -> &'static str {
        match self {
            Step::StartGet { zero_wait: false, .. } => "StartGet",
            Step::StartGet { zero_wait: true, .. } => "StartGet0",
            Step::Poll { .. } => "Poll",
            Step::PollWoken { .. } => "PollWoken",
            Step::Cancel { .. } => "Cancel",
            Step::OpenGate { .. } => "OpenGate",
            Step::Return { .. } => "Return",
            Step::Take { .. } => "Take",
            Step::Retain { .. } => "Retain",
            Step::Resize { .. } => "Resize",
            Step::Close { .. } => "Close",
            Step::Status => "Status",
            Step::Resume { .. } => "Resume",
            Step::DropPool => "DropPool",
            Step::GetNoRuntime { .. } => "GetNoRuntime",
            Step::Contend { .. } => "Contend",
            Step::StatusAt { .. } => "StatusAt",
        }
    }
    pub fn pause(&self) -> Option<u8> {
        match *self {
            Step::StartGet { pause, .. }
            | Step::Poll { pause, .. }
            | Step::PollWoken { pause }
            | Step::Cancel { pause, .. }
            | Step::Return { pause, .. }
            | Step::Take { pause, .. }
            | Step::Retain { pause, .. }
            | Step::Resize { pause, .. }
            | Step::Close { pause }
            | Step::Resume { pause, .. } => pause,
            _ => None,
        }
    }
}
