//! Byte-level decoding of a case (libFuzzer targets): the same case type as the
//! proptest strategies produce, so the same interpreter and oracles run.

use arbitrary::Unstructured;

use crate::case::*;

fn fin(u: &mut Unstructured) -> arbitrary::Result<Fin> {
    Ok(match u.int_in_range(0..=3u8)? {
        0 => Fin::Ok,
        1 => Fin::ErrMsg,
        2 => Fin::ErrBackend,
        _ => Fin::Panic,
    })
}

fn out(u: &mut Unstructured) -> arbitrary::Result<Out> {
    Ok(match u.int_in_range(0..=15u8)? {
        0..=7 => Out::Ok,
        8 | 9 => Out::ErrMsg,
        10 | 11 => Out::ErrBackend,
        12 => Out::Panic,
        13 | 14 => Out::Gate(fin(u)?),
        _ => Out::Never,
    })
}

fn outs(u: &mut Unstructured, max: usize) -> arbitrary::Result<Vec<Out>> {
    let n = u.int_in_range(0..=max)?;
    (0..n).map(|_| out(u)).collect()
}

fn hooks(u: &mut Unstructured) -> arbitrary::Result<Vec<HookKind>> {
    let n = u.int_in_range(0..=2usize)?;
    (0..n)
        .map(|_| Ok(if u.arbitrary::<bool>()? { HookKind::Async } else { HookKind::Sync }))
        .collect()
}

fn pause(u: &mut Unstructured, allowed: bool) -> arbitrary::Result<Option<u8>> {
    let b = u.int_in_range(0..=31u8)?;
    Ok(if allowed && b < 7 { Some(b) } else { None })
}

pub fn case(data: &[u8], prop: &str) -> arbitrary::Result<Case> {
    let mut u = Unstructured::new(data);
    let pauses = !matches!(prop, "C04" | "C08" | "C13");
    let resize = matches!(prop, "C06" | "C07" | "C08" | "C09" | "C11");
    let close = !matches!(prop, "C03" | "C04" | "C07" | "C08" | "C13");
    let max_size = u.int_in_range(0..=4u8)?.max(if matches!(prop, "C04" | "C08" | "C13") { 1 } else { 0 });
    let cfg = Cfg {
        max_size,
        lifo: u.arbitrary()?,
        post_create: hooks(&mut u)?,
        pre_recycle: hooks(&mut u)?,
        post_recycle: hooks(&mut u)?,
        via: 0,
    };
    let script = Script {
        create: outs(&mut u, 12)?,
        recycle: outs(&mut u, 12)?,
        post_create: (0..cfg.post_create.len()).map(|_| outs(&mut u, 8)).collect::<arbitrary::Result<_>>()?,
        pre_recycle: (0..cfg.pre_recycle.len()).map(|_| outs(&mut u, 8)).collect::<arbitrary::Result<_>>()?,
        post_recycle: (0..cfg.post_recycle.len()).map(|_| outs(&mut u, 8)).collect::<arbitrary::Result<_>>()?,
        detach_panic_at: None,
    };
    let mut steps = vec![];
    while !u.is_empty() && steps.len() < 80 {
        let s = match u.int_in_range(0..=15u8)? {
            0 | 1 => Step::StartGet { zero_wait: false, pause: pause(&mut u, pauses)? },
            2 => Step::StartGet { zero_wait: true, pause: pause(&mut u, pauses)? },
            3 => Step::Poll { g: u.arbitrary()?, pause: pause(&mut u, pauses)? },
            4 | 5 => Step::PollWoken { pause: pause(&mut u, pauses)? },
            6 => Step::Cancel { g: u.arbitrary()?, pause: pause(&mut u, pauses)? },
            7 => Step::OpenGate { i: u.arbitrary()? },
            8 | 9 => Step::Return { h: u.arbitrary()?, pause: pause(&mut u, pauses)? },
            10 => Step::Take { h: u.arbitrary()?, pause: pause(&mut u, pauses)? },
            11 => {
                let pred = match u.int_in_range(0..=3u8)? {
                    0 => Pred::Mask(u.arbitrary()?),
                    1 => Pred::EveryOther(u.arbitrary()?),
                    2 => Pred::FirstK(u.int_in_range(0..=3u8)?),
                    _ => Pred::FalseAfter(u.int_in_range(0..=3u8)?),
                };
                Step::Retain { pred, pause: pause(&mut u, pauses)? }
            }
            12 if resize => Step::Resize { n: u.int_in_range(0..=6u8)?, pause: pause(&mut u, pauses)? },
            13 if close => Step::Close { pause: pause(&mut u, pauses)? },
            14 if pauses => Step::Resume { p: u.arbitrary()?, pause: None },
            15 => {
                let b: u8 = u.arbitrary()?;
                if b < 64 { Step::GetNoRuntime { zero_wait: b & 1 == 1 } } else { Step::Status }
            }
            _ => Step::Status,
        };
        steps.push(s);
    }
    Ok(Case {
        cfg,
        script,
        steps,
        matrix: None,
        sweep: None,
            timed: None,
    })
}
