//! Ground truth: scripted manager, identity-tagged objects, gates, ordered call
//! log with operation attribution, and the event-time monitors.

use std::collections::VecDeque;
use std::future::Future;
use std::pin::Pin;
use std::sync::{Arc, Mutex};
use std::task::{Context, Poll, Waker};

use deadpool::managed::{HookError, Manager, Metrics, RecycleError, RecycleResult};
use vcore::sched::{current_op, lock, Injected};

use crate::case::{Cfg, Fin, Out, Script};

pub type Pool = deadpool::managed::Pool<Mgr>;
pub type PObject = deadpool::managed::Object<Mgr>;

#[derive(Clone, Copy, Debug, PartialEq, Eq)]
pub enum CallKind {
    Create,
    Recycle,
    PostCreate(u8),
    PreRecycle(u8),
    PostRecycle(u8),
}

#[derive(Clone, Copy, Debug, PartialEq, Eq)]
pub enum CallRes {
    Ok,
    Created(u32),
    ErrMsg(u32),
    ErrBackend(u32),
    Panic,
    /// the future of the call was dropped before it finished
    Dropped,
}

#[derive(Clone, Copy, Debug, PartialEq, Eq)]
pub enum OpKind {
    None,
    Build,
    Get,
    Return,
    Take,
    Retain,
    Resize,
    Close,
    Status,
    DropPool,
    Probe,
    Final,
}

#[derive(Clone, Copy, Debug, PartialEq, Eq)]
pub struct MetricsView {
    pub created: std::time::Instant,
    pub recycled: Option<std::time::Instant>,
    pub recycle_count: usize,
}

impl From<&Metrics> for MetricsView {
    fn from(m: &Metrics) -> Self {
        MetricsView {
            created: m.created,
            recycled: m.recycled,
            recycle_count: m.recycle_count,
        }
    }
}

#[derive(Clone, Debug)]
pub enum Ev {
    Step { idx: usize, what: String },
    StepEnd { idx: usize, what: String },
    Point { op: u32, label: &'static str },
    Parked { op: u32, label: &'static str },
    Call { op: u32, call: usize, kind: CallKind, obj: Option<u32>, n: usize },
    CallEnd { op: u32, call: usize, kind: CallKind, obj: Option<u32>, res: CallRes },
    GateOpen { gate: usize },
    Detach { op: u32, id: u32 },
    Destroyed { op: u32, id: u32 },
    Pred { op: u32, id: u32, keep: bool },
    Woken { get: usize },
    Note(String),
}

#[derive(Clone, Copy, Debug, PartialEq, Eq)]
pub enum Loc {
    /// owned by the pool: idle, or in the hands of a get() that is recycling / creating it
    InPool,
    /// wrapped in an `Object` in a caller's hands
    Held,
    /// handed to a caller as a plain value (take, retain)
    Out,
}

#[derive(Clone, Debug)]
pub struct ObjInfo {
    pub loc: Loc,
    pub destroyed: bool,
    pub detaches: u32,
    pub handouts: u32,
    /// op of the get() that currently has this object in hand
    pub in_hand: Option<u32>,
    /// a recycle / hook step failed for it or the attempt was abandoned
    pub rejected: bool,
    pub created_by: u32,
    /// metrics the caller last saw through Object::metrics()
    pub last_seen: Option<MetricsView>,
    pub created_at: Option<std::time::Instant>,
    /// pool was alive when the object was destroyed
    pub destroyed_alive: bool,
}

#[derive(Clone, Debug)]
pub struct CallRec {
    pub op: u32,
    pub kind: CallKind,
    pub obj: Option<u32>,
    pub n: usize,
    pub res: Option<CallRes>,
    pub gate: Option<usize>,
    pub metrics: Option<MetricsView>,
}

pub struct Gate {
    pub call: usize,
    pub open: bool,
    pub never: bool,
    pub dead: bool,
    pub waker: Option<Waker>,
}

#[derive(Clone, Debug)]
pub struct Flag {
    pub oracle: &'static str,
    pub props: &'static [&'static str],
    pub detail: String,
}

pub struct W {
    pub max_size_cfg: usize,
    pub lifo: bool,
    pub script: Script,
    pub n_create: usize,
    pub n_detach_in_get: usize,
    pub n_recycle: usize,
    pub n_post_create: Vec<usize>,
    pub n_pre_recycle: Vec<usize>,
    pub n_post_recycle: Vec<usize>,
    pub next_err: u32,
    pub log: Vec<Ev>,
    pub objs: Vec<ObjInfo>,
    pub creating: u32,
    pub calls: Vec<CallRec>,
    pub gates: Vec<Gate>,
    pub ops: Vec<OpKind>,
    pub flags: Vec<Flag>,
    /// all outcomes are Ok (end-of-history probe)
    pub probe_mode: bool,
    /// the pool (every handle) has been dropped
    pub pool_dead: bool,
    /// reference idle queue maintained from the return log (C08)
    pub idle_ref: VecDeque<u32>,
    /// whether ordering of idle_ref is trustworthy (no thread-level overlap so far)
    pub idle_ref_exact: bool,
    pub max_live: usize,
    /// objects moved to the caller by a take that has not finished yet
    pub taking: u32,
    pub faults_seen: u32,
    pub labels: Vec<String>,
    /// ops of gets that have obtained their permit
    pub admitted: Vec<u32>,
    pub c08_nt: bool,
    pub c09_took: bool,
    pub c09_take_then_get: bool,
    pub c09_released_by_shrink_or_close: bool,
}

pub struct World {
    pub inner: Mutex<W>,
    /// tells whether the pool's slots mutex is held right now (set once the pool exists)
    pub lock_probe: Mutex<Option<Box<dyn Fn() -> bool + Send + Sync>>>,
}

impl W {
    pub fn live(&self) -> usize {
        self.objs
            .iter()
            .filter(|o| !o.destroyed && o.loc != Loc::Out)
            .count()
    }
    pub fn idle_truth(&self) -> Vec<u32> {
        self.objs
            .iter()
            .enumerate()
            .filter(|(_, o)| !o.destroyed && o.loc == Loc::InPool && o.in_hand.is_none())
            .map(|(i, _)| i as u32)
            .collect()
    }
    pub fn held_truth(&self) -> usize {
        self.objs
            .iter()
            .filter(|o| !o.destroyed && o.loc == Loc::Held)
            .count()
    }
    pub fn op_kind(&self, op: u32) -> OpKind {
        self.ops.get(op as usize).copied().unwrap_or(OpKind::None)
    }
    pub fn flag(&mut self, oracle: &'static str, props: &'static [&'static str], detail: String) {
        self.flags.push(Flag {
            oracle,
            props,
            detail,
        });
    }
    pub fn new_op(&mut self, kind: OpKind) -> u32 {
        self.ops.push(kind);
        (self.ops.len() - 1) as u32
    }
    /// calls of `op` that have begun and not ended
    pub fn active_call_of(&self, op: u32) -> Option<usize> {
        self.calls
            .iter()
            .rposition(|c| c.op == op && c.res.is_none())
    }
    pub fn closed_gates(&self) -> Vec<usize> {
        self.gates
            .iter()
            .enumerate()
            .filter(|(_, g)| !g.open && !g.never && !g.dead)
            .map(|(i, _)| i)
            .collect()
    }

    fn check_caller(&mut self, what: &str, allowed: &[OpKind]) -> u32 {
        let op = current_op();
        let kind = self.op_kind(op);
        if op == 0 {
            self.flag(
                "background-work",
                &["C08"],
                format!("{} was called with no pool operation running on that thread", what),
            );
        } else if !allowed.contains(&kind) {
            self.flag(
                "callback-from-wrong-operation",
                &["C08"],
                format!("{} was called from inside a {:?} operation", what, kind),
            );
        }
        op
    }

    fn next_outcome(&mut self, kind: CallKind) -> (Out, usize) {
        fn take(v: &[Out], n: &mut usize) -> (Out, usize) {
            let i = *n;
            *n += 1;
            (v.get(i).copied().unwrap_or(Out::Ok), i)
        }
        let (o, n) = match kind {
            CallKind::Create => take(&self.script.create, &mut self.n_create),
            CallKind::Recycle => take(&self.script.recycle, &mut self.n_recycle),
            CallKind::PostCreate(i) => {
                let e: &[Out] = self.script.post_create.get(i as usize).map(|v| &v[..]).unwrap_or(&[]);
                take(e, &mut self.n_post_create[i as usize])
            }
            CallKind::PreRecycle(i) => {
                let e: &[Out] = self.script.pre_recycle.get(i as usize).map(|v| &v[..]).unwrap_or(&[]);
                take(e, &mut self.n_pre_recycle[i as usize])
            }
            CallKind::PostRecycle(i) => {
                let e: &[Out] = self.script.post_recycle.get(i as usize).map(|v| &v[..]).unwrap_or(&[]);
                take(e, &mut self.n_post_recycle[i as usize])
            }
        };
        if self.probe_mode {
            (Out::Ok, n)
        } else {
            if o != Out::Ok {
                self.faults_seen += 1;
            }
            (o, n)
        }
    }

    fn begin_call(
        &mut self,
        kind: CallKind,
        obj: Option<u32>,
        metrics: Option<MetricsView>,
    ) -> (usize, Out) {
        let what = format!("{:?}", kind);
        let op = self.check_caller(&what, &[OpKind::Get, OpKind::Probe]);
        let (out, n) = self.next_outcome(kind);
        let call = self.calls.len();
        self.calls.push(CallRec {
            op,
            kind,
            obj,
            n,
            res: None,
            gate: None,
            metrics,
        });
        self.log.push(Ev::Call {
            op,
            call,
            kind,
            obj,
            n,
        });
        match kind {
            CallKind::Create => {
                self.creating += 1;
                let live = self.live();
                let total = live + self.creating as usize;
                if total > self.max_live {
                    self.max_live = total;
                }
                if total > self.max_size_cfg {
                    self.flag(
                        "create-over-limit",
                        &["C01"],
                        format!(
                            "Manager::create called while {} objects exist and {} are being created (max_size {})",
                            live, self.creating, self.max_size_cfg
                        ),
                    );
                }
                if !self.idle_ref.is_empty() && self.idle_ref_exact {
                    self.flag(
                        "create-while-idle-available",
                        &["C08"],
                        format!(
                            "Manager::create called while idle objects {:?} had not been tried",
                            self.idle_ref
                        ),
                    );
                }
            }
            _ => {
                if let Some(id) = obj {
                    self.offer(op, id, kind);
                }
            }
        }
        (call, out)
    }

    /// a get() presents object `id` to the manager / a hook
    fn offer(&mut self, op: u32, id: u32, kind: CallKind) {
        let Some(o) = self.objs.get(id as usize).cloned() else {
            return;
        };
        if o.destroyed || o.loc != Loc::InPool || o.rejected {
            self.flag(
                "dead-object-reused",
                &["C04", "C09", "C03"],
                format!(
                    "{:?} called for object {} which is {}{:?}{}",
                    kind,
                    id,
                    if o.destroyed { "destroyed, " } else { "" },
                    o.loc,
                    if o.rejected { ", rejected earlier" } else { "" }
                ),
            );
        }
        let in_hand = match o.in_hand {
            // a return that has pushed the object but not finished yet: a get may pop it
            Some(h) if self.op_kind(h) == OpKind::Return => None,
            x => x,
        };
        match in_hand {
            Some(h) if h == op => {}
            Some(h) => {
                self.flag(
                    "object-in-two-hands",
                    &["C04", "C01"],
                    format!("object {} offered to op {} while op {} has it in hand", id, op, h),
                );
            }
            None => {
                // first step of an attempt on an idle object
                if matches!(kind, CallKind::PostCreate(_)) {
                    // post_create on an object that is not fresh
                    self.flag(
                        "post-create-on-idle-object",
                        &["C04"],
                        format!("post_create hook called for idle object {}", id),
                    );
                }
                if self.idle_ref.len() >= 2 {
                    self.c08_nt = true;
                }
                if self.idle_ref_exact {
                    let expect = if self.lifo {
                        self.idle_ref.back().copied()
                    } else {
                        self.idle_ref.front().copied()
                    };
                    if expect != Some(id) {
                        self.flag(
                            "reuse-order",
                            &["C08"],
                            format!(
                                "get offered idle object {} but the {} of the reference queue {:?} is {:?}",
                                id,
                                if self.lifo { "back (Lifo)" } else { "front (Fifo)" },
                                self.idle_ref,
                                expect
                            ),
                        );
                    }
                }
                self.idle_ref.retain(|x| *x != id);
                self.objs[id as usize].in_hand = Some(op);
            }
        }
    }

    fn end_call(&mut self, call: usize, res: CallRes) {
        let rec = &mut self.calls[call];
        if rec.res.is_some() {
            return;
        }
        rec.res = Some(res);
        let (op, kind, obj) = (rec.op, rec.kind, rec.obj);
        if let Some(g) = rec.gate {
            self.gates[g].dead = true;
        }
        self.log.push(Ev::CallEnd {
            op,
            call,
            kind,
            obj,
            res,
        });
        if kind == CallKind::Create {
            self.creating -= 1;
            if let CallRes::Created(id) = res {
                debug_assert_eq!(id as usize, self.objs.len());
                self.objs.push(ObjInfo {
                    loc: Loc::InPool,
                    destroyed: false,
                    detaches: 0,
                    handouts: 0,
                    in_hand: Some(op),
                    rejected: false,
                    created_by: op,
                    last_seen: None,
                    created_at: None,
                    destroyed_alive: false,
                });
            }
        } else if let Some(id) = obj {
            if !matches!(res, CallRes::Ok) {
                if let Some(o) = self.objs.get_mut(id as usize) {
                    o.rejected = true;
                }
            }
        }
    }

    pub fn on_detach(&mut self, id: u32) {
        let op = self.check_caller(
            "Manager::detach",
            &[
                OpKind::Get,
                OpKind::Return,
                OpKind::Take,
                OpKind::Retain,
                OpKind::Resize,
                OpKind::Close,
                OpKind::Probe,
                OpKind::Final,
            ],
        );
        self.log.push(Ev::Detach { op, id });
        if let Some(o) = self.objs.get_mut(id as usize) {
            o.detaches += 1;
            if o.detaches > 1 {
                let d = o.detaches;
                self.flag(
                    "detached-twice",
                    &["C09", "C04", "C03"],
                    format!("Manager::detach called {} times for object {}", d, id),
                );
            }
        }
    }

    pub fn on_destroyed(&mut self, id: u32) {
        let op = current_op();
        self.log.push(Ev::Destroyed { op, id });
        let pool_dead = self.pool_dead;
        let Some(o) = self.objs.get_mut(id as usize) else {
            return;
        };
        if o.destroyed {
            return;
        }
        o.destroyed = true;
        o.destroyed_alive = !pool_dead;
        if matches!(self.ops.get(op as usize), Some(OpKind::Resize) | Some(OpKind::Close)) {
            self.c09_released_by_shrink_or_close = true;
        }
        o.in_hand = None;
        let (loc, det) = (o.loc, o.detaches);
        self.idle_ref.retain(|x| *x != id);
        if loc != Loc::Out && !pool_dead && det != 1 {
            // "those it held are released and detached" is also part of C06 for what close() lets go
            let during_close = matches!(self.ops.get(op as usize), Some(OpKind::Close));
            self.flag(
                "released-without-detach",
                if during_close { &["C09", "C04", "C03", "C06"] } else { &["C09", "C04", "C03"] },
                format!(
                    "object {} was destroyed by a live pool with {} Manager::detach calls (during {:?})",
                    id,
                    det,
                    self.op_kind(op)
                ),
            );
        }
    }

    pub fn on_pred(&mut self, id: u32, keep: bool, m: MetricsView) {
        let op = self.check_caller("retain predicate", &[OpKind::Retain]);
        self.log.push(Ev::Pred { op, id, keep });
        let Some(o) = self.objs.get(id as usize).cloned() else {
            return;
        };
        // a return that has pushed the object but not finished yet leaves it idle
        let in_hand = match o.in_hand {
            Some(h) if self.op_kind(h) == OpKind::Return => None,
            x => x,
        };
        if o.destroyed || o.loc != Loc::InPool || in_hand.is_some() {
            self.flag(
                "retain-touched-non-idle",
                &["C09"],
                format!("retain predicate called for object {} which is not idle ({:?}, in hand {:?})", id, o.loc, o.in_hand),
            );
        }
        if !keep {
            // the object leaves the pool now (another thread may be waiting for the lock):
            // it is handed to the caller of retain()
            self.idle_ref.retain(|x| *x != id);
            if let Some(o) = self.objs.get_mut(id as usize) {
                if !o.destroyed && o.loc == Loc::InPool {
                    o.loc = Loc::Out;
                    o.in_hand = None;
                }
            }
        }
        if let Some(seen) = o.last_seen {
            if seen != m {
                self.flag(
                    "retain-metrics",
                    &["C13"],
                    format!(
                        "retain saw metrics {:?} for object {} but Object::metrics() last reported {:?}",
                        m, id, seen
                    ),
                );
            }
        }
    }
}

impl World {
    pub fn new(cfg: &Cfg, script: &Script) -> Arc<World> {
        Arc::new(World {
            inner: Mutex::new(W {
                max_size_cfg: cfg.max_size as usize,
                lifo: cfg.lifo,
                script: script.clone(),
                n_create: 0,
                n_detach_in_get: 0,
                n_recycle: 0,
                n_post_create: vec![0; cfg.post_create.len()],
                n_pre_recycle: vec![0; cfg.pre_recycle.len()],
                n_post_recycle: vec![0; cfg.post_recycle.len()],
                next_err: 1,
                log: Vec::new(),
                objs: Vec::new(),
                creating: 0,
                calls: Vec::new(),
                gates: Vec::new(),
                ops: vec![OpKind::None],
                flags: Vec::new(),
                probe_mode: false,
                pool_dead: false,
                idle_ref: VecDeque::new(),
                idle_ref_exact: true,
                max_live: 0,
                taking: 0,
                faults_seen: 0,
                labels: Vec::new(),
                admitted: Vec::new(),
                c08_nt: false,
                c09_took: false,
                c09_take_then_get: false,
                c09_released_by_shrink_or_close: false,
            }),
            lock_probe: Mutex::new(None),
        })
    }
    pub fn w(&self) -> std::sync::MutexGuard<'_, W> {
        lock(&self.inner)
    }

    /// Every call of the pool into user code is a schedule point, provided the pool
    /// does not hold its lock there (a parked operation must never block the others).
    pub fn cb_point(&self, label: &'static str) {
        let free = {
            let p = lock(&self.lock_probe);
            match p.as_ref() {
                Some(f) => !f(),
                None => false,
            }
        };
        if free {
            deadpool::verif::point(label);
        }
    }
}

/// The pooled object: an identity the pool cannot change, with a logged destructor.
pub struct Obj {
    pub id: u32,
    world: Arc<World>,
}

impl Drop for Obj {
    fn drop(&mut self) {
        self.world.w().on_destroyed(self.id);
    }
}

#[derive(Clone, Debug, PartialEq, Eq)]
pub struct TErr(pub u32);

pub struct Mgr {
    pub world: Arc<World>,
}

/// Guard that records the end of a scripted call even if its future is dropped
/// or unwinds.
struct CallGuard {
    world: Arc<World>,
    call: usize,
}

impl Drop for CallGuard {
    fn drop(&mut self) {
        self.world.w().end_call(self.call, CallRes::Dropped);
    }
}

struct GateFut {
    world: Arc<World>,
    gate: usize,
}

impl Future for GateFut {
    type Output = ();
    fn poll(self: Pin<&mut Self>, cx: &mut Context<'_>) -> Poll<()> {
        let mut w = self.world.w();
        let g = &mut w.gates[self.gate];
        if g.open {
            Poll::Ready(())
        } else {
            g.waker = Some(cx.waker().clone());
            Poll::Pending
        }
    }
}

/// Runs one scripted call to its outcome.
async fn scripted(
    world: Arc<World>,
    kind: CallKind,
    obj: Option<u32>,
    metrics: Option<MetricsView>,
) -> (CallGuard, Fin) {
    let (call, out) = world.w().begin_call(kind, obj, metrics);
    let guard = CallGuard {
        world: world.clone(),
        call,
    };
    world.cb_point("cb.call");
    let fin = match out {
        Out::Ok => Fin::Ok,
        Out::ErrMsg => Fin::ErrMsg,
        Out::ErrBackend => Fin::ErrBackend,
        Out::Panic => Fin::Panic,
        Out::Gate(f) => {
            let gate = {
                let mut w = world.w();
                w.gates.push(Gate {
                    call,
                    open: false,
                    never: false,
                    dead: false,
                    waker: None,
                });
                let g = w.gates.len() - 1;
                w.calls[call].gate = Some(g);
                g
            };
            GateFut {
                world: world.clone(),
                gate,
            }
            .await;
            f
        }
        Out::Never => {
            let gate = {
                let mut w = world.w();
                w.gates.push(Gate {
                    call,
                    open: false,
                    never: true,
                    dead: false,
                    waker: None,
                });
                let g = w.gates.len() - 1;
                w.calls[call].gate = Some(g);
                g
            };
            GateFut {
                world: world.clone(),
                gate,
            }
            .await;
            Fin::Ok
        }
    };
    if fin == Fin::Panic {
        world.w().end_call(call, CallRes::Panic);
        std::panic::panic_any(Injected);
    }
    (guard, fin)
}

fn scripted_sync(world: &Arc<World>, kind: CallKind, obj: Option<u32>, metrics: Option<MetricsView>) -> (CallGuard, Fin) {
    let (call, out) = world.w().begin_call(kind, obj, metrics);
    let guard = CallGuard {
        world: world.clone(),
        call,
    };
    world.cb_point("cb.call");
    let fin = match out {
        Out::Ok | Out::Never => Fin::Ok,
        Out::ErrMsg => Fin::ErrMsg,
        Out::ErrBackend => Fin::ErrBackend,
        Out::Panic => Fin::Panic,
        Out::Gate(f) => f,
    };
    if fin == Fin::Panic {
        world.w().end_call(call, CallRes::Panic);
        std::panic::panic_any(Injected);
    }
    (guard, fin)
}

impl Manager for Mgr {
    type Type = Obj;
    type Error = TErr;

    fn create(&self) -> impl Future<Output = Result<Obj, TErr>> + Send {
        let world = self.world.clone();
        async move {
            let (guard, fin) = scripted(world.clone(), CallKind::Create, None, None).await;
            let mut w = world.w();
            match fin {
                Fin::Ok => {
                    let id = w.objs.len() as u32;
                    w.end_call(guard.call, CallRes::Created(id));
                    drop(w);
                    Ok(Obj { id, world })
                }
                _ => {
                    let e = w.next_err;
                    w.next_err += 1;
                    w.end_call(guard.call, CallRes::ErrBackend(e));
                    Err(TErr(e))
                }
            }
        }
    }

    fn recycle(
        &self,
        obj: &mut Obj,
        metrics: &Metrics,
    ) -> impl Future<Output = RecycleResult<TErr>> + Send {
        let world = self.world.clone();
        let id = obj.id;
        let mv = MetricsView::from(metrics);
        async move {
            let (guard, fin) = scripted(world.clone(), CallKind::Recycle, Some(id), Some(mv)).await;
            let mut w = world.w();
            match fin {
                Fin::Ok => {
                    w.end_call(guard.call, CallRes::Ok);
                    Ok(())
                }
                Fin::ErrMsg => {
                    let e = w.next_err;
                    w.next_err += 1;
                    w.end_call(guard.call, CallRes::ErrMsg(e));
                    Err(RecycleError::message(format!("m{}", e)))
                }
                _ => {
                    let e = w.next_err;
                    w.next_err += 1;
                    w.end_call(guard.call, CallRes::ErrBackend(e));
                    Err(RecycleError::Backend(TErr(e)))
                }
            }
        }
    }

    fn detach(&self, obj: &mut Obj) {
        let blow = {
            let mut w = self.world.w();
            w.on_detach(obj.id);
            let in_get = w.op_kind(vcore::sched::current_op()) == OpKind::Get;
            if in_get {
                let k = w.n_detach_in_get;
                w.n_detach_in_get += 1;
                // never while the thread is already unwinding: that would abort the process
                w.script.detach_panic_at == Some(k as u8) && !std::thread::panicking()
            } else {
                false
            }
        };
        self.world.cb_point("cb.detach");
        if blow {
            self.world.w().labels.push("detach:injected-panic".into());
            std::panic::panic_any(vcore::sched::Injected);
        }
    }
}

fn hook_result(world: &Arc<World>, guard: CallGuard, fin: Fin) -> Result<(), HookError<TErr>> {
    let mut w = world.w();
    match fin {
        Fin::Ok => {
            w.end_call(guard.call, CallRes::Ok);
            Ok(())
        }
        Fin::ErrMsg => {
            let e = w.next_err;
            w.next_err += 1;
            w.end_call(guard.call, CallRes::ErrMsg(e));
            Err(HookError::message(format!("m{}", e)))
        }
        _ => {
            let e = w.next_err;
            w.next_err += 1;
            w.end_call(guard.call, CallRes::ErrBackend(e));
            Err(HookError::Backend(TErr(e)))
        }
    }
}

pub fn sync_hook(world: Arc<World>, kind: CallKind) -> deadpool::managed::Hook<Mgr> {
    deadpool::managed::Hook::sync_fn(move |obj: &mut Obj, m: &Metrics| {
        let (guard, fin) = scripted_sync(&world, kind, Some(obj.id), Some(MetricsView::from(m)));
        hook_result(&world, guard, fin)
    })
}

pub fn async_hook(world: Arc<World>, kind: CallKind) -> deadpool::managed::Hook<Mgr> {
    deadpool::managed::Hook::async_fn(move |obj: &mut Obj, m: &Metrics| {
        let world = world.clone();
        let id = obj.id;
        let mv = MetricsView::from(m);
        Box::pin(async move {
            let (guard, fin) = scripted(world.clone(), kind, Some(id), Some(mv)).await;
            hook_result(&world, guard, fin)
        })
    })
}
