//! Bounded-preemption sweep: for a pause-free history H, run H once to learn how
//! many schedule points each step passes, then re-run it for EVERY placement of
//! one pause: (step i, schedule point k of that step, resume after j further steps
//! or at the end). Exhaustive for one preemption on that history and deterministic.

use vcore::drive::{hash_json, Ctx, Report, Violation};

use crate::case::*;
use crate::interp::Interp;
use crate::world::Ev;

/// schedule points passed by each step of a pause-free run
fn points_per_step(ctx: &Ctx, case: &Case) -> (Vec<usize>, Report) {
    let it = Interp::new(ctx, case);
    let world = it.world.clone();
    let rep = it.run();
    let w = world.w();
    let mut counts = vec![0usize; case.steps.len()];
    let mut cur: Option<usize> = None;
    for e in &w.log {
        match e {
            Ev::Step { idx, .. } => cur = Some(*idx),
            Ev::Note(_) => cur = None,
            Ev::Point { .. } => {
                if let Some(i) = cur {
                    if i < counts.len() {
                        counts[i] += 1;
                    }
                }
            }
            _ => {}
        }
    }
    (counts, rep)
}

pub fn run(ctx: &Ctx, case: &Case) -> Report {
    let mut base = case.clone();
    base.sweep = None;
    let (counts, first) = points_per_step(ctx, &base);
    let mut rep = Report::default();
    rep.executions = 1;
    rep.labels = first.labels.clone();
    rep.known = first.known.clone();
    if first.violation.is_some() || first.inconclusive.is_some() {
        rep.violation = first.violation;
        rep.inconclusive = first.inconclusive;
        return rep;
    }
    let n = base.steps.len();
    for i in 0..n {
        for k in 0..counts[i].min(12) {
            let Some(paused) = base.steps[i].with_pause(k as u8) else { continue };
            // resume after j further steps (j = 0: never resumed explicitly, the end of the history does it)
            let max_j = (n - 1 - i).min(4);
            for j in 0..=max_j {
                let mut steps = base.steps.clone();
                steps[i] = paused;
                if j > 0 {
                    steps.insert(i + j + 1, Step::Resume { p: 0, pause: None });
                }
                let sub = Case {
                    cfg: base.cfg.clone(),
                    script: base.script.clone(),
                    steps,
                    matrix: None,
                    sweep: None,
            timed: None,
                };
                let r = Interp::new(ctx, &sub).run();
                rep.executions += 1;
                for l in r.labels {
                    if l.starts_with("park:") || l.starts_with("window:") || l.starts_with("known:") {
                        rep.labels.push(l);
                    }
                }
                rep.known.extend(r.known);
                if r.nontrivial {
                    rep.sub_nontrivial.push(hash_json(&sub));
                }
                if let Some(w) = r.inconclusive {
                    rep.inconclusive = Some(w);
                    return finish(rep);
                }
                if let Some(v) = r.violation {
                    rep.violation = Some(Violation {
                        oracle: v.oracle,
                        step: v.step,
                        detail: format!(
                            "sweep placement (step {}, point {}, resume after {}): {} | concrete case: {}",
                            i,
                            k,
                            j,
                            v.detail,
                            serde_json::to_string(&sub).unwrap_or_default()
                        ),
                        trace: v.trace,
                    });
                    return finish(rep);
                }
            }
        }
    }
    finish(rep)
}

fn finish(mut rep: Report) -> Report {
    rep.labels.sort();
    rep.labels.dedup();
    rep.known.sort();
    rep.known.dedup();
    rep
}
