//! Bounded-preemption sweep: for a pause-free history H, run H once to learn how
//! many schedule points each step passes, then re-run it for EVERY placement of
//! one pause: (step i, schedule point k of that step, resume after j further steps
//! or at the end). Exhaustive for one preemption on that history and deterministic.
//! With `sweep = Some(2)` every such run is extended by every placement of a second
//! pause in a later step (preemption bound 2, short histories only).

use vcore::drive::{hash_json, Ctx, Report, Violation};

use crate::case::*;
use crate::interp::Interp;
use crate::world::Ev;

/// schedule points passed by each step of a pause-free run
fn points_per_step(ctx: &Ctx, case: &Case) -> (Vec<usize>, Report) {
    let it = Interp::new(ctx, case);
    let world = it.world.clone();
    let rep = it.run();
    let w = world.w();
    let mut counts = vec![0usize; case.steps.len()];
    let mut cur: Option<usize> = None;
    for e in &w.log {
        match e {
            Ev::Step { idx, .. } => cur = Some(*idx),
            Ev::Note(_) => cur = None,
            Ev::Point { .. } => {
                if let Some(i) = cur {
                    if i < counts.len() {
                        counts[i] += 1;
                    }
                }
            }
            _ => {}
        }
    }
    (counts, rep)
}

pub fn run(ctx: &Ctx, case: &Case) -> Report {
    let mut base = case.clone();
    base.sweep = None;
    let (counts, first) = points_per_step(ctx, &base);
    let mut rep = Report::default();
    rep.executions = 1;
    rep.labels = first.labels.clone();
    rep.known = first.known.clone();
    if first.violation.is_some() || first.inconclusive.is_some() {
        rep.violation = first.violation;
        rep.inconclusive = first.inconclusive;
        return rep;
    }
    let level = case.sweep.unwrap_or(1);
    let n = base.steps.len();
    for i in 0..n {
        for k in 0..counts[i].min(12) {
            let Some(paused) = base.steps[i].with_pause(k as u8) else { continue };
            // resume after j further steps (j = 0: never resumed explicitly, the end of the history does it)
            let max_j = (n - 1 - i).min(4);
            for j in 0..=max_j {
                let mut steps = base.steps.clone();
                steps[i] = paused;
                if j > 0 {
                    steps.insert(i + j + 1, Step::Resume { p: 0, pause: None });
                }
                let sub = Case {
                    cfg: base.cfg.clone(),
                    script: base.script.clone(),
                    steps,
                    matrix: None,
                    sweep: None,
            timed: None,
                };
                let (counts2, r) = if level >= 2 { points_per_step(ctx, &sub) } else { (vec![], Interp::new(ctx, &sub).run()) };
                rep.executions += 1;
                for l in r.labels {
                    if l.starts_with("park:") || l.starts_with("window:") || l.starts_with("known:") {
                        rep.labels.push(l);
                    }
                }
                rep.known.extend(r.known);
                if r.nontrivial {
                    rep.sub_nontrivial.push(hash_json(&sub));
                }
                if let Some(w) = r.inconclusive {
                    rep.inconclusive = Some(w);
                    return finish(rep);
                }
                if let Some(v) = r.violation {
                    rep.violation = Some(Violation {
                        oracle: v.oracle,
                        step: v.step,
                        detail: format!(
                            "sweep placement (step {}, point {}, resume after {}): {} | concrete case: {}",
                            i,
                            k,
                            j,
                            v.detail,
                            serde_json::to_string(&sub).unwrap_or_default()
                        ),
                        trace: v.trace,
                    });
                    return finish(rep);
                }
                if level >= 2 && second_level(ctx, &sub, i, &counts2, &mut rep) {
                    return finish(rep);
                }
            }
        }
    }
    finish(rep)
}

/// every placement of a second pause in a step after `first` of a history that already
/// holds one pause; returns true when the sweep has to stop (violation / inconclusive)
fn second_level(ctx: &Ctx, one: &Case, first: usize, counts: &[usize], rep: &mut Report) -> bool {
    let n = one.steps.len();
    for i2 in (first + 1)..n {
        if matches!(one.steps[i2], Step::Resume { .. }) {
            continue;
        }
        for k2 in 0..counts.get(i2).copied().unwrap_or(0).min(8) {
            let Some(paused) = one.steps[i2].with_pause(k2 as u8) else { continue };
            let max_j = (n - 1 - i2).min(2);
            for j2 in 0..=max_j {
                let mut steps = one.steps.clone();
                steps[i2] = paused;
                if j2 > 0 {
                    // the operation parked last
                    steps.insert(i2 + j2 + 1, Step::Resume { p: 255, pause: None });
                }
                let sub = Case {
                    cfg: one.cfg.clone(),
                    script: one.script.clone(),
                    steps,
                    matrix: None,
                    sweep: None,
                    timed: None,
                };
                let r = Interp::new(ctx, &sub).run();
                rep.executions += 1;
                for l in r.labels {
                    if l.starts_with("park:") || l.starts_with("window:") || l.starts_with("known:") {
                        rep.labels.push(l);
                    }
                }
                rep.labels.push("two-pauses".into());
                rep.known.extend(r.known);
                if r.nontrivial {
                    rep.sub_nontrivial.push(hash_json(&sub));
                }
                if let Some(w) = r.inconclusive {
                    rep.inconclusive = Some(w);
                    return true;
                }
                if let Some(v) = r.violation {
                    rep.violation = Some(Violation {
                        oracle: v.oracle,
                        step: v.step,
                        detail: format!(
                            "sweep placement of a second pause (step {}, point {}, resume after {}): {} | concrete case: {}",
                            i2,
                            k2,
                            j2,
                            v.detail,
                            serde_json::to_string(&sub).unwrap_or_default()
                        ),
                        trace: v.trace,
                    });
                    return true;
                }
            }
        }
    }
    false
}

fn finish(mut rep: Report) -> Report {
    rep.labels.sort();
    rep.labels.dedup();
    rep.known.sort();
    rep.known.dedup();
    rep
}
