//! E1: managed-pool interpreter. Serves C01 C02 C03 C04 C06 C07 C08 C09 C11 C13.

pub mod c07;
pub mod case;
pub mod contend;
pub mod decode;
pub mod gen;
pub mod interp;
pub mod matrix;
pub mod sweep;
pub mod world;

use vcore::drive::{Ctx, Engine, Report, Stage, Tier};

pub struct Msim;

impl Engine for Msim {
    const NAME: &'static str = "msim";
    type Case = case::Case;

    fn properties() -> Vec<&'static str> {
        vec!["C01", "C02", "C03", "C04", "C06", "C07", "C08", "C09", "C11", "C13"]
    }

    fn level(prop: &str) -> &'static str {
        if prop == "C03" {
            "fault_enumeration"
        } else {
            "exploration"
        }
    }

    fn extra_coverage(ctx: &Ctx, labels: &std::collections::BTreeMap<String, u64>) -> serde_json::Value {
        if ctx.prop != "C03" {
            return serde_json::Value::Null;
        }
        let matrix: std::collections::BTreeMap<String, u64> = labels
            .iter()
            .filter(|(k, _)| k.starts_with("crash:") || k.starts_with("cancel-at:") || k.starts_with("iso-differential"))
            .map(|(k, v)| (k.clone(), *v))
            .collect();
        serde_json::json!({
            "exhaustive": true,
            "exhaustive_scope": "stage crash-matrix: for each generated configuration and prefix state every (await point of the next get x abandonment mode x 0..2 earlier rejects) is executed; prefixes and configurations themselves are sampled",
            "matrix": matrix,
        })
    }

    fn hang_is_violation(prop: &str) -> bool {
        // these properties promise that calls complete (never deadlock / always complete / instead of hanging)
        matches!(prop, "C02" | "C06")
    }

    fn rule(prop: &str) -> String {
        let common = "case = pool config (max_size, queue mode, 0-2 sync/async hooks per kind) + per-call fault script (ok / error / panic / gated / never) + history of pool operations with optional thread-level pauses at schedule points; distinct by hash of the whole case. Non-trivial: ";
        let r = match prop {
            "C01" => "at some instant live objects + creates in progress == max_size >= 1 and the case contains a fault, a cancellation or a pause that another step ran under",
            "C02" => "at least one failing / cancelled / panicking get and the pool was later driven to max_size concurrent objects or had a waiter at a quiescent point",
            "C03" => "a get() was abandoned (future dropped or injected panic) while suspended at an await point other than the slot wait, or at the slot wait with another caller inside get() or holding an object",
            "C04" => "a get() that went through at least one rejected idle object (then succeeded or returned an error)",
            "C06" => "close() overlapped another operation (pause) or met at least one waiter or idle object, and further steps followed it",
            "C07" => "a shrink with objects out or getters in flight, a grow with parked waiters, or a shrink followed by a grow",
            "C08" => "a get() offered an idle object while the reference idle queue held at least 2 objects",
            "C09" => "a retain that removes a proper non-empty subset, a take followed by a successful get, or an idle object released by a shrink or close",
            "C11" => "a rest point (no operation in progress) was reached after a failure, cancellation, take, retain, resize or close",
            "C13" => "some object was handed out at least 3 times",
            _ => "see DESIGN.md section 6",
        };
        let r = if matches!(prop, "C01" | "C02" | "C03" | "C04" | "C06") {
            format!("{}{}. Cases of the stage `timeouts` (virtual-clock interpreter) count as non-trivial by the C10 rule: a deadline expired or a completion happened within 1 ms of a pending deadline", common, r)
        } else {
            format!("{}{}", common, r)
        };
        r.to_string()
    }

    fn assumptions(_prop: &str) -> Vec<String> {
        vec![
            "interleavings are explored at the granularity of the cfg(deadpool_verif) schedule points under sequential consistency; interleavings inside tokio's semaphore or inside single statements are not".into(),
            "bounds: max_size <= 5, <= 6 concurrent gets, <= 2 hooks per kind, bounded history length".into(),
            "the interpreter's pools have no runtime; timeouts other than a zero wait are exercised by the stage `timeouts` (virtual-clock interpreter of the tsim engine) for C01 - C04 and by C10".into(),
        ]
    }

    fn stages(ctx: &Ctx) -> Vec<Stage<case::Case>> {
        let thorough = ctx.tier == Tier::Thorough;
        let p = gen::profile_for(&ctx.prop, thorough);
        let cases = match (ctx.prop.as_str(), thorough) {
            // pause-free histories are cheap: more of them
            ("C04" | "C08" | "C13", false) => 16 * 6000,
            ("C04" | "C08" | "C13", true) => 16 * 60000,
            // retain / take windows need a pause in the right callback: more histories
            ("C09", false) => 16 * 2500,
            (_, false) => 16 * 800,
            (_, true) => 16 * 20000,
        };
        let mut stages = vec![Stage {
            name: "random".into(),
            cases,
            strategy: gen::case(p),
        }];
        if matches!(ctx.prop.as_str(), "C01" | "C02" | "C03" | "C06" | "C07" | "C09" | "C11") {
            stages.push(Stage {
                name: "sweep".into(),
                cases: if thorough { 16 * 600 } else { 16 * 40 },
                strategy: gen::sweep_case(&ctx.prop, thorough),
            });
        }
        if matches!(ctx.prop.as_str(), "C01" | "C02" | "C03" | "C06" | "C07" | "C09" | "C11") {
            stages.push(Stage {
                name: "sweep2".into(),
                cases: if thorough { 16 * 60 } else { 16 * 2 },
                strategy: gen::sweep2_case(&ctx.prop, thorough),
            });
        }
        if ctx.prop == "C06" {
            stages.push(Stage {
                name: "rotate-then-close".into(),
                cases: if thorough { 16 * 4000 } else { 16 * 300 },
                strategy: gen::rotate_then_close_case(),
            });
        }
        if ctx.prop == "C07" {
            stages.push(Stage {
                name: "resize-overlap".into(),
                cases: if thorough { 16 * 20000 } else { 16 * 1500 },
                strategy: gen::resize_overlap_case(),
            });
        }
        if matches!(ctx.prop.as_str(), "C01" | "C02" | "C06" | "C08" | "C09" | "C11") {
            stages.push(Stage {
                name: "contention".into(),
                cases: if thorough { 16 * 300 } else { 16 * 12 },
                strategy: gen::contend_case(&ctx.prop),
            });
        }
        // the clauses about timed-out calls need a runtime: delegated to the virtual-clock interpreter
        if matches!(ctx.prop.as_str(), "C01" | "C02" | "C03" | "C04" | "C06") {
            stages.push(Stage {
                name: "timeouts".into(),
                cases: if thorough { 16 * 100000 } else { 16 * 6000 },
                strategy: gen::timed_case(thorough),
            });
        }
        if ctx.prop == "C03" {
            stages.insert(
                0,
                Stage {
                    name: "crash-matrix".into(),
                    cases: if thorough { 16 * 400 } else { 16 * 40 },
                    strategy: gen::matrix_case(),
                },
            );
        }
        stages
    }

    fn run(ctx: &Ctx, case: &case::Case) -> Report {
        if let Some(t) = &case.timed {
            <tsim::Tsim as Engine>::run(ctx, t)
        } else if case.matrix.is_some() {
            matrix::run(ctx, case)
        } else if case.sweep.is_some() {
            sweep::run(ctx, case)
        } else {
            interp::Interp::new(ctx, case).run()
        }
    }
}

