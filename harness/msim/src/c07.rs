//! C07: ideal capacity model for resize(), with the known-finding matcher.

use deadpool::verif::ManagedSnapshot;

use crate::interp::Interp;

pub struct Model {
    pub configured: usize,
}

impl Model {
    pub fn new(configured: usize) -> Self {
        Model { configured }
    }
}

impl<'a> Interp<'a> {
    pub(crate) fn c07_admitted(&mut self, _g: usize) {}
    pub(crate) fn c07_idle_surplus(&mut self, _n: usize, _a: ManagedSnapshot) {}
    pub(crate) fn c07_resized(&mut self, _n: usize, _b: Option<ManagedSnapshot>, _a: Option<ManagedSnapshot>) {}
    pub(crate) fn c07_quiescent(&mut self, _at: &str, _sn: &ManagedSnapshot, _waiting: usize, _gated: usize) {}
    pub(crate) fn c07_probe_mismatch(&mut self, _detail: String, _got: usize, _limit: usize) {}
}
