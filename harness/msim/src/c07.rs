//! C07: ideal capacity model for resize(), with the known-finding matcher.
//!
//! Ideal: with limit n (target of the last completed resize) and in_use = objects
//! in caller hands + getters past admission, the free permits at a quiescent point
//! are F* = max(0, n - in_use). D = permits - F* is the deviation; a correct
//! implementation has D == 0 at every quiescent point. D < 0 is lost capacity.
//! D may only grow through an event the known-findings file lists, and only by
//! the amount the known arithmetic of `Pool::resize` predicts:
//!   KF1  shrink removes free permits only while size > max_size (and a getter
//!        that was admitted before the shrink gives its permit back when it fails)
//!   KF2  grow adds the full difference although objects are still out from a shrink
//!   KF3  shrink racing with a return / take that has released the slots lock but
//!        not yet added its permit

use deadpool::verif::ManagedSnapshot;

use crate::interp::{Interp, PKind};

#[derive(Clone, Copy, Debug)]
pub struct ResizeEv {
    pub n: usize,
    pub before: Option<ManagedSnapshot>,
    pub after: Option<ManagedSnapshot>,
    /// the call started on a fully populated pool with everything idle and nothing but
    /// resizes in flight
    pub clean: bool,
    /// the target the call was made with (`n` is the target that won when resizes overlapped)
    pub n_called: usize,
}

pub struct Model {
    pub configured: usize,
    /// deviation at the last fully quiescent point
    pub d_prev: isize,
    /// the previous step ended at a fully quiescent point
    pub prev_quiescent: bool,
    pub resizes: Vec<ResizeEv>,
    /// admitted getters that gave their permit back while the pool was over its limit
    pub fail_in_debt: u32,
    /// returns / takes parked after their unlock while a shrink completed
    pub raced_release: u32,
    /// steps since the last fully quiescent point
    pub steps_in_stretch: u32,
    pub overlapped: bool,
    /// something other than resize calls ran since the last fully quiescent point
    pub non_resize_in_stretch: bool,
    /// the pool at the last fully quiescent point
    pub last_quiet: Option<ManagedSnapshot>,
    pub shrinks: u32,
    pub grows: u32,
    pub shrink_with_out: bool,
    pub grow_with_waiters: bool,
    pub shrink_then_grow: bool,
}

impl Model {
    pub fn new(configured: usize) -> Self {
        Model {
            configured,
            d_prev: 0,
            prev_quiescent: true,
            resizes: vec![],
            fail_in_debt: 0,
            raced_release: 0,
            steps_in_stretch: 0,
            overlapped: false,
            non_resize_in_stretch: false,
            last_quiet: None,
            shrinks: 0,
            grows: 0,
            shrink_with_out: false,
            grow_with_waiters: false,
            shrink_then_grow: false,
        }
    }
}

fn permute(v: &mut Vec<usize>, k: usize, f: &mut dyn FnMut(&[usize])) {
    if k == v.len() {
        f(v);
        return;
    }
    for i in k..v.len() {
        v.swap(k, i);
        permute(v, k + 1, f);
        v.swap(k, i);
    }
}

/// free permits after `resize(n)` as the known code computes them
fn known_arith(b: &ManagedSnapshot, n: usize) -> (usize, usize, usize) {
    let (mut p, mut s, mut i) = (b.permits, b.size, b.idle);
    if n < b.max_size {
        while s > n {
            if p > 0 {
                p -= 1;
                if i > 0 {
                    i -= 1;
                    s -= 1;
                }
            } else {
                break;
            }
        }
    } else if n > b.max_size {
        p += n - b.max_size;
    }
    (p, s, i)
}

impl<'a> Interp<'a> {
    fn c07_on(&self) -> bool {
        self.ctx.prop == "C07"
    }

    pub(crate) fn c07_in_use(&self) -> usize {
        let w = self.world.w();
        let admitted = self
            .gets
            .iter()
            .filter(|g| g.is_inside() && w.admitted.contains(&g.op))
            .count();
        self.held.len() + admitted
    }

    fn c07_known(&mut self, id: &str, detail: String) {
        if self.ctx.is_known(id) {
            self.known.push(id.to_string());
            self.labels.push(format!("known:{}", id));
        } else {
            self.flag("resize-capacity", &["C07"], format!("{} ({} is not a listed known finding)", detail, id));
        }
    }

    pub(crate) fn c07_admitted(&mut self, _g: usize) {}

    /// an admitted getter is about to give its permit back (failure, cancellation, panic)
    pub(crate) fn c07_get_released(&mut self, g: usize) {
        let op = self.gets[g].op;
        let admitted = self.world.w().admitted.contains(&op);
        if admitted {
            self.c07_release_begins(0);
        }
    }

    /// a slot is about to be released (return, take, failing get) by something that
    /// `c07_in_use` counts `extra` short. If the pool is over its limit by the ideal
    /// count, the known code may give the permit back instead of absorbing it.
    pub(crate) fn c07_release_begins(&mut self, extra: usize) {
        if !self.resize_started || self.close_started {
            return;
        }
        if self.c07_in_use() + extra > self.effective_limit() {
            self.c07.fail_in_debt += 1;
        }
    }

    pub(crate) fn c07_idle_surplus(&mut self, n: usize, a: ManagedSnapshot) {
        if self.c07.raced_release > 0 || self.c07.d_prev > 0 {
            return; // judged through D at the quiescent point
        }
        self.flag(
            "shrink-kept-idle-surplus",
            &["C07"],
            format!("after resize({}) returned the pool still holds idle objects although size exceeds the limit ({:?})", n, a),
        );
    }

    pub(crate) fn c07_resized(&mut self, n: usize, n_called: usize, b: Option<ManagedSnapshot>, a: Option<ManagedSnapshot>, clean: bool) {
        let old = b.map(|b| b.max_size);
        let before = if self.c07.prev_quiescent && self.parked.is_empty() { b } else { None };
        self.c07.resizes.push(ResizeEv { n, n_called, before, after: a, clean });
        let prev_limit = old.unwrap_or(self.c07.configured);
        if n < prev_limit {
            self.c07.shrinks += 1;
            if !self.held.is_empty() || self.c07_in_use() > 0 {
                self.c07.shrink_with_out = true;
            }
            // returns / takes that are between their unlock and their add_permits
            let raced = self
                .parked
                .iter()
                .filter(|p| {
                    matches!(p.kind, PKind::Return(..) | PKind::Take(_))
                        && matches!(self.sched.parked_label(p.worker), "ret.keep.unlocked" | "det.unlocked")
                })
                .count();
            self.c07.raced_release += raced as u32;
        } else if n > prev_limit {
            self.c07.grows += 1;
            if self.c07.shrinks > 0 {
                self.c07.shrink_then_grow = true;
            }
            let (waiting, _) = self.classify_pending();
            if !waiting.is_empty() {
                self.c07.grow_with_waiters = true;
            }
        }
    }

    /// after every step that was not followed by a fully quiescent point
    pub(crate) fn c07_not_quiescent(&mut self) {
        self.c07.prev_quiescent = false;
        self.c07.steps_in_stretch += 1;
        self.c07.overlapped = true;
        if self.gets.iter().any(|g| g.state == crate::interp::GState::Pending && g.flag.is_set()) || self.parked.iter().any(|p| !matches!(p.kind, PKind::Resize(_))) {
            // a woken caller or a parked operation other than a resize shares the stretch
            self.c07.non_resize_in_stretch = true;
        }
    }

    pub(crate) fn c07_quiescent(&mut self, at: &str, sn: &ManagedSnapshot, waiting: usize, _gated: usize) {
        if !self.c07_on() {
            return;
        }
        let n = self.effective_limit();
        let in_use = self.c07_in_use();
        let fstar = n.saturating_sub(in_use) as isize;
        let d = sn.permits as isize - fstar;
        let dd = d - self.c07.d_prev;
        let single_inline = self.c07.prev_quiescent && !self.c07.overlapped;
        let resizes = std::mem::take(&mut self.c07.resizes);
        let fail = std::mem::replace(&mut self.c07.fail_in_debt, 0);
        let raced = std::mem::replace(&mut self.c07.raced_release, 0);
        if waiting > 0 && in_use < n {
            self.flag(
                "waiter-stranded-after-resize",
                &["C07"],
                format!("{}: {} getters wait although only {} of {} slots are in use ({:?})", at, waiting, in_use, n, sn),
            );
        }
        if d < 0 {
            self.flag(
                "capacity-lost-after-resize",
                &["C07"],
                format!(
                    "{}: {} free permits but limit {} with {} in use requires {} ({:?})",
                    at, sn.permits, n, in_use, fstar, sn
                ),
            );
        } else if single_inline && resizes.len() == 1 && resizes[0].before.is_some() {
            let r = resizes[0];
            let b = r.before.unwrap();
            let (p, s, i) = known_arith(&b, r.n);
            let matches_known = r.after.map(|a| a.permits == p && a.size == s && a.idle == i).unwrap_or(false);
            if d != 0 && dd != 0 {
                if matches_known {
                    let id = if r.n < b.max_size { "KF1" } else { "KF2" };
                    self.c07_known(
                        id,
                        format!(
                            "{}: resize({}) from {:?} left {} free permits, the limit with {} in use allows {}",
                            at, r.n, b, sn.permits, in_use, fstar
                        ),
                    );
                } else {
                    self.flag(
                        "resize-capacity",
                        &["C07"],
                        format!(
                            "{}: resize({}) from {:?} left {:?}: {} free permits although limit {} with {} in use allows {} (not the known arithmetic, which gives {} permits)",
                            at, r.n, b, r.after, sn.permits, n, in_use, fstar, p
                        ),
                    );
                }
            } else if d != 0 && !matches_known {
                // carried surplus must evolve as the known arithmetic says
                self.flag(
                    "resize-capacity",
                    &["C07"],
                    format!(
                        "{}: resize({}) from {:?} left {:?}; neither the ideal nor the known arithmetic ({} permits)",
                        at, r.n, b, r.after, p
                    ),
                );
            }
        } else if dd > 0 {
            let only_resizes = !self.c07.non_resize_in_stretch && fail == 0 && raced == 0 && !resizes.is_empty() && resizes.len() <= 4;
            let serial_ok = match (only_resizes, self.c07.last_quiet) {
                (true, Some(start)) => {
                    // Nothing but resize calls overlapped each other. Whatever their interleaving, the
                    // outcome has to be that of *some* serial order of these calls - computed with the
                    // known arithmetic, so the recorded findings stay recognisable.
                    let ns: Vec<usize> = resizes.iter().map(|r| r.n_called).collect();
                    let mut found = false;
                    let mut order: Vec<usize> = (0..ns.len()).collect();
                    permute(&mut order, 0, &mut |ord: &[usize]| {
                        let mut st = start;
                        for &k in ord {
                            let (p, s, i) = known_arith(&st, ns[k]);
                            st.permits = p;
                            st.size = s;
                            st.idle = i;
                            st.max_size = ns[k];
                        }
                        if st.permits == sn.permits && st.size == sn.size && st.idle == sn.idle && st.max_size == sn.max_size {
                            found = true;
                        }
                    });
                    Some(found)
                }
                _ => None,
            };
            if serial_ok == Some(false) {
                self.flag(
                    "resize-capacity",
                    &["C07"],
                    format!(
                        "{}: overlapping resize calls {:?} starting from {:?} left {:?}, which no serial order of these calls produces (limit {} with {} in use allows {} free permits)",
                        at,
                        resizes.iter().map(|r| r.n_called).collect::<Vec<_>>(),
                        self.c07.last_quiet,
                        sn,
                        n,
                        in_use,
                        fstar
                    ),
                );
            } else if !resizes.is_empty() {
                // a resize overlapped other operations: magnitude not judged
                let id = if resizes.iter().any(|r| r.n < self.c07.configured) { "KF1" } else { "KF2" };
                let id = if raced > 0 { "KF3" } else { id };
                self.c07_known(id, format!("{}: capacity surplus {} after a resize that overlapped other operations", at, d));
            } else if dd as u32 <= fail + raced {
                let id = if raced > 0 { "KF3" } else { "KF1" };
                self.c07_known(
                    id,
                    format!(
                        "{}: capacity surplus grew by {} ({} slots were released while the pool was over its limit, {} returns/takes raced with a shrink)",
                        at, dd, fail, raced
                    ),
                );
            } else {
                self.flag(
                    "capacity-surplus-after-resize",
                    &["C07"],
                    format!(
                        "{}: free permits {} exceed what limit {} with {} in use allows ({}) and the surplus grew by {} without a resize ({:?})",
                        at, sn.permits, n, in_use, fstar, dd, sn
                    ),
                );
            }
        }
        self.c07.d_prev = d;
        self.c07.prev_quiescent = true;
        self.c07.overlapped = false;
        self.c07.non_resize_in_stretch = false;
        self.c07.last_quiet = Some(*sn);
        self.c07.steps_in_stretch = 0;
    }

    pub(crate) fn c07_probe_mismatch(&mut self, detail: String, got: usize, limit: usize) {
        if !self.c07_on() {
            return;
        }
        let d = self.c07.d_prev;
        if d > 0 && got as isize == limit as isize + d {
            // the surplus was already attributed to known findings at the quiescent points
            self.labels.push("probe:known-surplus".into());
            return;
        }
        self.flag("capacity-probe-after-resize", &["C07"], detail);
    }
}
