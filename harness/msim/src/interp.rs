//! The schedule-owning interpreter for the managed pool and its monitors.

use std::any::Any;
use std::future::Future;
use std::pin::Pin;
use std::sync::Arc;
use std::task::{Context, Poll, Waker};
use std::time::Duration;

use deadpool::managed::{Hook, PoolError, QueueMode, RetainResult, TimeoutType, Timeouts};
use deadpool::verif::ManagedSnapshot;
use deadpool::Status;
use vcore::sched::{PanicKind, Run, Sched, WakeFlag};
use vcore::{pick, Ctx, Report, Violation};

use crate::case::*;
use crate::world::*;

pub(crate) type GetResult = Result<PObject, PoolError<TErr>>;
pub(crate) type GetFut = Pin<Box<dyn Future<Output = GetResult> + Send>>;

#[derive(Clone, Debug, PartialEq)]
pub enum GetEnd {
    Ok(u32),
    Err(String),
    Panicked,
    Cancelled,
}

#[derive(Clone, Debug, PartialEq)]
pub(crate) enum GState {
    Pending,
    OnWorker,
    Done(GetEnd),
}

pub(crate) struct GetSlot {
    pub(crate) op: u32,
    pub(crate) fut: Option<GetFut>,
    pub(crate) flag: Arc<WakeFlag>,
    pub(crate) state: GState,
    pub(crate) zero_wait: bool,
    pub(crate) polls: u32,
    /// Some(expect_capacity_free) if the get started at a quiescent point
    pub(crate) start_free: Option<bool>,
    /// a Close step had completed before this get started
    pub(crate) after_close: bool,
    /// was waiting for a slot (pending without an active call) when Close completed
    pub(crate) waiting_at_close: bool,
    /// state before the call, valid while nothing but this call touched the pool
    pub(crate) iso: Option<Iso>,
    /// monotonic instant taken before the call was made
    pub(crate) started_at: std::time::Instant,
}

#[derive(Clone, Debug)]
pub(crate) struct Iso {
    epoch: u64,
    snap: ManagedSnapshot,
    status: Status,
    idle: Vec<u32>,
    /// nobody else was inside get() when the call started
    alone: bool,
}

pub(crate) struct HeldObj {
    pub(crate) obj: PObject,
    pub(crate) id: u32,
}

pub(crate) enum PKind {
    Poll(usize),
    Cancel(usize),
    Return(u32, bool),
    Take(u32),
    Retain,
    Resize(usize),
    Close,
    Status,
}

pub(crate) struct ParkedOp {
    pub(crate) worker: usize,
    pub(crate) kind: PKind,
    pub(crate) op: u32,
    pub(crate) step: usize,
}

enum OpOut {
    Poll(Option<GetFut>, Option<GetResult>),
    Unit,
    Take(Obj),
    Retain(RetainResult<Obj>),
    Status(Status),
}

pub struct Interp<'a> {
    pub(crate) ctx: &'a Ctx,
    pub(crate) case: &'a Case,
    pub world: Arc<World>,
    pub(crate) pool: Option<Pool>,
    pub(crate) sched: Sched,
    pub(crate) gets: Vec<GetSlot>,
    pub(crate) held: Vec<HeldObj>,
    pub(crate) out: Vec<Obj>,
    pub(crate) parked: Vec<ParkedOp>,
    pub(crate) step: usize,
    pub(crate) violation: Option<Violation>,
    pub(crate) inconclusive: Option<String>,
    /// stop interpreting this case without a verdict (the pool did something that belongs
    /// to a property this engine does not judge and the books cannot follow)
    pub(crate) skip_rest: bool,
    /// execution intervals of resize() calls on a logical clock: (start, end, target)
    pub(crate) resize_hist: Vec<(u64, Option<u64>, usize, bool)>,
    pub(crate) tick: u64,
    pub(crate) known: Vec<String>,
    pub(crate) labels: Vec<String>,
    // history facts
    pub(crate) close_started: bool,
    pub(crate) close_done: bool,
    pub(crate) resize_started: bool,
    /// target of the last completed resize (None = configured)
    pub(crate) limit: Option<usize>,
    pub(crate) any_pause: bool,
    pub(crate) overlap: bool,
    // non-triviality facts
    pub(crate) saw_fault_get: bool,
    pub(crate) saw_cancel: bool,
    pub(crate) saw_full: bool,
    pub(crate) saw_waiter_at_quiescence: bool,
    pub(crate) rest_after_event: bool,
    pub(crate) events_for_rest: u32,
    pub(crate) nt: bool,
    pub(crate) c03_nt: bool,
    pub(crate) disturb: u64,
    pub(crate) c06_close_step: Option<usize>,
    // C07 ideal model
    pub c07: crate::c07::Model,
    pub(crate) n_steps_run: usize,
}

impl GetSlot {
    pub(crate) fn is_inside(&self) -> bool {
        matches!(self.state, GState::Pending | GState::OnWorker)
    }
}

fn perr(e: &PoolError<TErr>) -> String {
    match e {
        PoolError::Timeout(t) => format!("Timeout({:?})", t),
        PoolError::Backend(TErr(n)) => format!("Backend({})", n),
        PoolError::Closed => "Closed".into(),
        PoolError::NoRuntimeSpecified => "NoRuntimeSpecified".into(),
        PoolError::PostCreateHook(deadpool::managed::HookError::Message(m)) => {
            format!("PostCreateHook(Message({}))", m)
        }
        PoolError::PostCreateHook(deadpool::managed::HookError::Backend(TErr(n))) => {
            format!("PostCreateHook(Backend({}))", n)
        }
    }
}

const ALL_CAP: &[&str] = &["C02", "C03", "C09"];

impl<'a> Interp<'a> {
    pub fn new(ctx: &'a Ctx, case: &'a Case) -> Self {
        let world = World::new(&case.cfg, &case.script);
        let sink_world = world.clone();
        let sched = Sched::new(Arc::new(move |op, label| {
            let mut w = sink_world.w();
            w.log.push(Ev::Point { op, label });
            if label == "get.permit" {
                w.admitted.push(op);
            }
        }));
        let build_op = world.w().new_op(OpKind::Build);
        let mut it = Interp {
            ctx,
            case,
            world: world.clone(),
            pool: None,
            sched,
            gets: Vec::new(),
            held: Vec::new(),
            out: Vec::new(),
            parked: Vec::new(),
            step: 0,
            violation: None,
            inconclusive: None,
            skip_rest: false,
            resize_hist: vec![],
            tick: 0,
            known: Vec::new(),
            labels: Vec::new(),
            close_started: false,
            close_done: false,
            resize_started: false,
            limit: None,
            any_pause: false,
            overlap: false,
            saw_fault_get: false,
            saw_cancel: false,
            saw_full: false,
            saw_waiter_at_quiescence: false,
            rest_after_event: false,
            events_for_rest: 0,
            nt: false,
            c03_nt: false,
            disturb: 0,
            c06_close_step: None,
            c07: crate::c07::Model::new(case.cfg.max_size as usize),
            n_steps_run: 0,
        };
        // building a pool calls nothing (C08): build under an op of kind Build
        let cfg = case.cfg.clone();
        let w2 = world.clone();
        let built = it.sched.run_inline(build_op, move || {
            let qm = if cfg.lifo { QueueMode::Lifo } else { QueueMode::Fifo };
            let pc = deadpool::managed::PoolConfig {
                max_size: cfg.max_size as usize,
                timeouts: Timeouts::default(),
                queue_mode: qm,
            };
            let mut b = Pool::builder(Mgr { world: w2.clone() });
            b = match cfg.via % 4 {
                0 => b.max_size(cfg.max_size as usize).queue_mode(qm),
                1 => b.queue_mode(qm).max_size(cfg.max_size as usize),
                3 => b.config(pc),
                _ => b,
            };
            for (i, k) in cfg.post_create.iter().enumerate() {
                b = b.post_create(mk_hook(&w2, *k, CallKind::PostCreate(i as u8)));
            }
            for (i, k) in cfg.pre_recycle.iter().enumerate() {
                b = b.pre_recycle(mk_hook(&w2, *k, CallKind::PreRecycle(i as u8)));
            }
            for (i, k) in cfg.post_recycle.iter().enumerate() {
                b = b.post_recycle(mk_hook(&w2, *k, CallKind::PostRecycle(i as u8)));
            }
            if cfg.via % 4 == 2 {
                b = b.config(pc);
            }
            b.build()
        });
        match built {
            Ok(Ok(p)) => {
                let probe = p.clone();
                *vcore::sched::lock(&it.world.lock_probe) = Some(Box::new(move || probe.verif_slots_locked()));
                it.pool = Some(p)
            }
            Ok(Err(e)) => it.fail("build-failed", format!("{:?}", e)),
            Err(p) => it.fail("build-panicked", format!("{:?}", p)),
        }
        it
    }

    pub(crate) fn fail(&mut self, oracle: &str, detail: String) {
        if self.violation.is_none() {
            let trace = self.trace();
            self.violation = Some(Violation {
                oracle: oracle.to_string(),
                step: self.step,
                detail,
                trace,
            });
        }
    }

    pub(crate) fn trace(&self) -> Vec<String> {
        let w = self.world.w();
        let n = w.log.len();
        let start = n.saturating_sub(400);
        w.log[start..].iter().map(|e| format!("{:?}", e)).collect()
    }

    pub(crate) fn armed(&self, props: &[&str]) -> bool {
        props.contains(&self.ctx.prop.as_str())
    }

    /// report a deviation that witnesses a violation of any of `props`
    pub(crate) fn flag(&mut self, oracle: &str, props: &[&str], detail: String) {
        if self.armed(props) {
            self.fail(oracle, detail);
        }
    }

    pub(crate) fn drain_flags(&mut self) {
        let flags: Vec<Flag> = std::mem::take(&mut self.world.w().flags);
        for f in flags {
            if self.armed(f.props) {
                self.fail(f.oracle, f.detail);
            }
        }
    }

    pub(crate) fn note(&self, s: String) {
        self.world.w().log.push(Ev::Note(s));
    }

    pub(crate) fn label(&mut self, s: &str) {
        self.labels.push(s.to_string());
    }

    pub fn snapshot(&self) -> Option<ManagedSnapshot> {
        self.pool.as_ref().map(|p| p.verif_snapshot())
    }

    pub(crate) fn status(&self) -> Option<Status> {
        self.pool.as_ref().map(|p| p.status())
    }

    pub(crate) fn pending_gets(&self) -> Vec<usize> {
        self.gets
            .iter()
            .enumerate()
            .filter(|(_, g)| g.state == GState::Pending)
            .map(|(i, _)| i)
            .collect()
    }

    /// (waiting for a slot, inside a manager / hook call) among pending gets
    pub(crate) fn classify_pending(&self) -> (Vec<usize>, Vec<usize>) {
        let w = self.world.w();
        let mut waiting = vec![];
        let mut gated = vec![];
        for (i, g) in self.gets.iter().enumerate() {
            if g.state == GState::Pending {
                // inside a manager / hook call, or suspended elsewhere after it obtained its slot
                // (an implementation may yield to the executor between two steps)
                if w.active_call_of(g.op).is_some() || w.admitted.contains(&g.op) {
                    gated.push(i);
                } else {
                    waiting.push(i);
                }
            }
        }
        (waiting, gated)
    }

    pub(crate) fn inside_get(&self) -> usize {
        self.gets
            .iter()
            .filter(|g| matches!(g.state, GState::Pending | GState::OnWorker))
            .count()
            + self
                .parked
                .iter()
                .filter(|p| matches!(p.kind, PKind::Cancel(_)))
                .count()
    }

    pub(crate) fn effective_limit(&self) -> usize {
        if self.close_done {
            0
        } else {
            self.limit.unwrap_or(self.case.cfg.max_size as usize)
        }
    }

    pub(crate) fn quiescent(&self) -> bool {
        self.parked.is_empty()
            && !self
                .gets
                .iter()
                .any(|g| g.state == GState::Pending && g.flag.is_set())
    }

    // ------------------------------------------------------------------ steps

    pub fn run(mut self) -> Report {
        let steps = self.case.steps.clone();
        for (i, s) in steps.iter().enumerate() {
            if self.violation.is_some() || self.inconclusive.is_some() || self.skip_rest {
                break;
            }
            self.step = i;
            self.world.w().log.push(Ev::Step {
                idx: i,
                what: format!("{:?}", s),
            });
            self.do_step(*s);
            self.n_steps_run += 1;
            self.after_step();
        }
        if self.violation.is_none() && self.inconclusive.is_none() && !self.skip_rest {
            self.step = steps.len();
            self.finish();
        }
        self.teardown();
        let mut labels = std::mem::take(&mut self.labels);
        labels.extend(std::mem::take(&mut self.world.w().labels));
        labels.sort();
        labels.dedup();
        Report {
            violation: self.violation.take(),
            nontrivial: self.nt,
            labels,
            known: {
                let mut k = std::mem::take(&mut self.known);
                k.sort();
                k.dedup();
                k
            },
            inconclusive: self.inconclusive.take(),
            executions: 1,
            sub_nontrivial: vec![],
        }
    }

    pub(crate) fn do_step(&mut self, s: Step) {
        if s.pause().is_some() {
            self.any_pause = true;
            self.world.w().idle_ref_exact = false;
        }
        if !self.parked.is_empty() && !matches!(s, Step::Resume { .. } | Step::Status) {
            self.overlap = true;
            // which operation kinds ran inside which window
            for p in &self.parked {
                let l = format!("window:{}|{}", self.sched.parked_label(p.worker), s.kind());
                self.labels.push(l);
            }
        }
        if !matches!(s, Step::OpenGate { .. } | Step::Status | Step::Poll { .. } | Step::PollWoken { .. } | Step::Cancel { .. }) {
            self.disturb += 1;
        }
        if !matches!(s, Step::Resize { .. } | Step::Status | Step::StatusAt { .. })
            && !(matches!(s, Step::Resume { .. }) && self.parked.iter().all(|p| matches!(p.kind, PKind::Resize(_))))
        {
            self.c07.non_resize_in_stretch = true;
        }
        match s {
            Step::StartGet { zero_wait, pause } => self.start_get(zero_wait, pause),
            Step::Poll { g, pause } => {
                let p = self.pending_gets();
                if let Some(i) = pick(g, p.len()) {
                    self.touch_only(p[i]);
                    self.poll_get(p[i], pause);
                }
            }
            Step::PollWoken { pause } => {
                let p: Vec<usize> = self
                    .pending_gets()
                    .into_iter()
                    .filter(|i| self.gets[*i].flag.is_set())
                    .collect();
                if let Some(&i) = p.first() {
                    self.touch_only(i);
                    self.poll_get(i, pause);
                }
            }
            Step::Cancel { g, pause } => {
                let p = self.pending_gets();
                if let Some(i) = pick(g, p.len()) {
                    self.touch_only(p[i]);
                    self.cancel_get(p[i], pause);
                }
            }
            Step::OpenGate { i } => {
                let gates = self.world.w().closed_gates();
                if let Some(k) = pick(i, gates.len()) {
                    self.open_gate(gates[k]);
                }
            }
            Step::Return { h, pause } => {
                if let Some(i) = pick(h, self.held.len()) {
                    self.return_obj(i, pause);
                }
            }
            Step::Take { h, pause } => {
                if let Some(i) = pick(h, self.held.len()) {
                    self.take_obj(i, pause);
                }
            }
            Step::Retain { pred, pause } => self.retain(pred, pause),
            Step::Resize { n, pause } => self.resize(n as usize, pause),
            Step::Close { pause } => self.close(pause),
            Step::Status => {
                // sampled in after_step
            }
            Step::StatusAt { pause } => self.status_at(pause),
            Step::Resume { p, pause } => {
                if let Some(i) = pick(p, self.parked.len()) {
                    self.resume(i, pause);
                }
            }
            Step::DropPool => self.drop_pool(),
            Step::GetNoRuntime { zero_wait } => self.get_no_runtime(zero_wait),
            Step::Contend { pred, inner } => self.contend(pred, inner),
        }
    }

    /// only get #g is about to touch the pool: every other isolated call is disturbed
    pub(crate) fn touch_only(&mut self, g: usize) {
        self.disturb += 1;
        let d = self.disturb;
        if let Some(iso) = self.gets[g].iso.as_mut() {
            if iso.epoch + 1 == d {
                iso.epoch = d;
            }
        }
    }

    /// C03 differential: the pool after an abandoned, undisturbed get() vs before it
    pub(crate) fn iso_check(&mut self, g: usize, how: &str) {
        let Some(iso) = self.gets[g].iso.clone() else { return };
        if iso.epoch != self.disturb || !self.parked.is_empty() {
            return;
        }
        let (Some(s1), Some(st1)) = (self.snapshot(), self.status()) else { return };
        let idle1 = self.idle_order();
        let op = self.gets[g].op;
        let (d_all, bad_objs): (Vec<u32>, Vec<String>) = {
            let w = self.world.w();
            let mut d: Vec<u32> = vec![];
            for c in w.calls.iter().filter(|c| c.op == op) {
                let id = match (c.kind, c.res) {
                    (CallKind::Create, Some(CallRes::Created(id))) => Some(id),
                    _ => c.obj,
                };
                if let Some(id) = id {
                    if !d.contains(&id) {
                        d.push(id);
                    }
                }
            }
            let bad = d
                .iter()
                .filter_map(|id| {
                    let o = &w.objs[*id as usize];
                    if !o.destroyed || o.detaches != 1 {
                        Some(format!("object {} destroyed={} detaches={}", id, o.destroyed, o.detaches))
                    } else {
                        None
                    }
                })
                .collect();
            (d, bad)
        };
        let d_pre: Vec<u32> = d_all.iter().copied().filter(|id| iso.idle.contains(id)).collect();
        let expect_idle: Vec<u32> = iso.idle.iter().copied().filter(|id| !d_pre.contains(id)).collect();
        let s0 = iso.snap;
        let st0 = iso.status;
        let mut bad: Vec<String> = bad_objs;
        if s1.users != s0.users || s1.permits != s0.permits || s1.max_size != s0.max_size || s1.closed != s0.closed {
            bad.push(format!("a slot or user count stayed reserved: before {:?}, after {:?}", s0, s1));
        }
        if s1.size + d_pre.len() != s0.size || s1.idle + d_pre.len() != s0.idle {
            bad.push(format!("size / idle not reduced by exactly the {} discarded objects: before {:?}, after {:?}", d_pre.len(), s0, s1));
        }
        if idle1 != expect_idle {
            bad.push(format!("idle queue is {:?}, expected {:?} (before {:?}, discarded {:?})", idle1, expect_idle, iso.idle, d_all));
        }
        // available / waiting are derived from users - size: with other callers inside
        // get() they shift with size, so they are compared only when the call was alone
        if st1.max_size != st0.max_size
            || st1.size + d_pre.len() != st0.size
            || (iso.alone && (st1.waiting != st0.waiting || st1.available + d_pre.len() != st0.available))
        {
            bad.push(format!("status() is {:?}, earlier {:?}, {} objects discarded", st1, st0, d_pre.len()));
        }
        self.labels.push(format!("iso-differential:{}", how));
        for b in bad {
            self.flag("abandoned-get-left-traces", &["C03"], format!("get #{} {}: {}", g, how, b));
        }
    }

    pub(crate) fn open_gate(&mut self, gate: usize) {
        let waker = {
            let mut w = self.world.w();
            w.gates[gate].open = true;
            w.log.push(Ev::GateOpen { gate });
            w.gates[gate].waker.take()
        };
        if let Some(wk) = waker {
            wk.wake();
        }
    }

    pub(crate) fn new_op(&self, kind: OpKind) -> u32 {
        self.world.w().new_op(kind)
    }

    pub(crate) fn start_get(&mut self, zero_wait: bool, pause: Option<u8>) {
        let Some(pool) = self.pool.clone() else { return };
        if self.pending_gets().len() + self.gets.iter().filter(|g| g.state == GState::OnWorker).count() >= 6 {
            return;
        }
        let op = self.new_op(OpKind::Get);
        let timeouts = Timeouts {
            wait: if zero_wait { Some(Duration::ZERO) } else { None },
            create: None,
            recycle: None,
        };
        let fut: GetFut = Box::pin(async move { pool.timeout_get(&timeouts).await });
        // expectation for a get that starts at a quiescent point
        let start_free = if pause.is_none() && self.quiescent() && !self.resize_started && !self.close_started {
            let (_, gated) = self.classify_pending();
            let (waiting, _) = self.classify_pending();
            let used = self.held.len() + gated.len();
            // a queued waiter is served first (fair semaphore), so capacity is only
            // free for a newcomer if nobody is queued
            Some(used < self.case.cfg.max_size as usize && waiting.is_empty())
        } else {
            None
        };
        let iso = if pause.is_none() && self.quiescent() {
            match (self.snapshot(), self.status()) {
                (Some(snap), Some(status)) => Some(Iso {
                    epoch: self.disturb,
                    snap,
                    status,
                    idle: self.idle_order(),
                    alone: snap.users == self.held.len(),
                }),
                _ => None,
            }
        } else {
            None
        };
        self.gets.push(GetSlot {
            started_at: std::time::Instant::now(),
            iso,
            op,
            fut: Some(fut),
            flag: WakeFlag::new(),
            state: GState::Pending,
            zero_wait,
            polls: 0,
            start_free,
            after_close: self.close_done,
            waiting_at_close: false,
        });
        let g = self.gets.len() - 1;
        self.poll_get(g, pause);
    }

    /// A call that cannot be honoured (recycle timeout, no runtime). The statement of C10 is
    /// not judged here; what matters to this engine is that the refused call leaves the pool
    /// exactly as it was (the invariants after the step see a leaked counter or permit).
    pub(crate) fn get_no_runtime(&mut self, zero_wait: bool) {
        let Some(pool) = self.pool.clone() else { return };
        let op = self.new_op(OpKind::Get);
        let timeouts = Timeouts {
            wait: if zero_wait { Some(Duration::ZERO) } else { None },
            create: None,
            recycle: Some(Duration::from_millis(10)),
        };
        let r = self.sched.run_inline(op, move || {
            let mut fut: GetFut = Box::pin(async move { pool.timeout_get(&timeouts).await });
            let waker = Waker::from(WakeFlag::new());
            let mut cx = Context::from_waker(&waker);
            match fut.as_mut().poll(&mut cx) {
                Poll::Ready(r) => Some(r),
                Poll::Pending => None,
            }
        });
        match r {
            Err(pk) => self.op_panicked("timeout_get without runtime", pk),
            Ok(Some(Err(PoolError::NoRuntimeSpecified))) => {
                let calls = self.world.w().calls.iter().filter(|c| c.op == op).count();
                if calls == 0 {
                    self.label("get:refused-without-runtime");
                    self.saw_fault_get = true;
                } else {
                    // it got as far as the manager: objects may have been discarded on the way;
                    // the ledger follows that, the verdict belongs to C10
                    self.label("get:refused-without-runtime-after-calls");
                }
            }
            Ok(Some(Err(PoolError::Closed))) if self.close_started || self.close_done => {
                self.label("get:closed-without-runtime");
            }
            Ok(_) => {
                // not refused (C10's business): the books of this interpreter cannot follow it
                self.label("skipped:no-runtime-get-not-refused");
                self.skip_rest = true;
            }
        }
    }

    pub(crate) fn poll_get(&mut self, g: usize, pause: Option<u8>) {
        self.c07.non_resize_in_stretch = true;
        let op = self.gets[g].op;
        let Some(mut fut) = self.gets[g].fut.take() else { return };
        let flag = self.gets[g].flag.clone();
        let _ = flag.take();
        self.gets[g].polls += 1;
        match pause {
            None => {
                let waker = Waker::from(flag);
                let r = self.sched.run_inline(op, || {
                    let mut cx = Context::from_waker(&waker);
                    fut.as_mut().poll(&mut cx)
                });
                match r {
                    Ok(Poll::Pending) => {
                        self.gets[g].fut = Some(fut);
                        self.poll_pending(g);
                    }
                    Ok(Poll::Ready(res)) => {
                        let _ = self.sched.run_inline(op, move || drop(fut));
                        self.get_done(g, res);
                    }
                    Err(pk) => {
                        let _ = self.sched.run_inline(op, move || drop(fut));
                        self.get_panicked(g, pk);
                    }
                }
            }
            Some(k) => {
                self.gets[g].state = GState::OnWorker;
                let f: Box<dyn FnOnce() -> Box<dyn Any + Send> + Send> = Box::new(move || {
                    let waker = Waker::from(flag);
                    let mut cx = Context::from_waker(&waker);
                    let r = fut.as_mut().poll(&mut cx);
                    let out = match r {
                        Poll::Pending => OpOut::Poll(Some(fut), None),
                        Poll::Ready(res) => {
                            drop(fut);
                            OpOut::Poll(None, Some(res))
                        }
                    };
                    Box::new(out) as Box<dyn Any + Send>
                });
                let r = self.sched.spawn(op, k as u32, f);
                self.handle_run(r, PKind::Poll(g), op);
            }
        }
    }

    pub(crate) fn poll_pending(&mut self, g: usize) {
        self.gets[g].state = GState::Pending;
        if self.gets[g].zero_wait {
            // a zero-wait call may be pending inside a manager / hook call or anywhere else after
            // it obtained its slot, but never while it waits for one
            let op = self.gets[g].op;
            let (in_call, admitted) = {
                let w = self.world.w();
                (w.active_call_of(op).is_some(), w.admitted.contains(&op))
            };
            if !in_call && admitted {
                self.label("get:yielded-outside-a-call");
            }
            if !in_call && !admitted {
                self.flag(
                    "zero-wait-get-waits",
                    &["C02", "C10"],
                    format!("get #{} with a zero wait timeout returned Pending outside any manager or hook call", g),
                );
            }
        }
    }

    pub(crate) fn handle_run(&mut self, r: Result<Run, vcore::sched::Watchdog>, kind: PKind, op: u32) {
        match r {
            Err(_) => {
                self.inconclusive = Some(format!(
                    "watchdog: operation {} neither completed nor parked within 60 s at step {}",
                    op, self.step
                ));
            }
            Ok(Run::Parked { worker, label }) => {
                self.world.w().log.push(Ev::Parked { op, label });
                self.labels.push(format!("park:{}", label));
                self.parked.push(ParkedOp {
                    worker,
                    kind,
                    op,
                    step: self.step,
                });
                self.at_park();
            }
            Ok(Run::Done(res)) => self.complete(kind, op, res),
        }
    }

    pub(crate) fn resume(&mut self, i: usize, pause: Option<u8>) {
        let p = self.parked.remove(i);
        let r = self.sched.resume(p.worker, pause.map(|k| k as u32));
        self.handle_run(r, p.kind, p.op);
    }

    pub(crate) fn complete(&mut self, kind: PKind, op: u32, res: vcore::sched::OpResult) {
        match (kind, res) {
            (PKind::Poll(g), Ok(b)) => match *b.downcast::<OpOut>().expect("opout") {
                OpOut::Poll(Some(fut), None) => {
                    self.gets[g].fut = Some(fut);
                    self.poll_pending(g);
                }
                OpOut::Poll(_, Some(res)) => self.get_done(g, res),
                _ => unreachable!(),
            },
            (PKind::Poll(g), Err(pk)) => self.get_panicked(g, pk),
            (PKind::Cancel(g), r) => {
                if let Err(pk) = r {
                    self.op_panicked("cancel", pk);
                }
                self.cancel_done(g);
            }
            (PKind::Return(id, closed_before), r) => {
                if let Err(pk) = r {
                    self.op_panicked("return", pk);
                }
                self.return_done(id, closed_before);
            }
            (PKind::Take(id), Ok(b)) => match *b.downcast::<OpOut>().expect("opout") {
                OpOut::Take(obj) => self.take_done(id, obj),
                _ => unreachable!(),
            },
            (PKind::Take(_), Err(pk)) => {
                self.world.w().taking -= 1;
                self.op_panicked("take", pk)
            }
            (PKind::Retain, Ok(b)) => match *b.downcast::<OpOut>().expect("opout") {
                OpOut::Retain(rr) => self.retain_done(op, rr, None),
                _ => unreachable!(),
            },
            (PKind::Retain, Err(pk)) => self.op_panicked("retain", pk),
            (PKind::Resize(n), r) => {
                if let Err(pk) = r {
                    self.op_panicked("resize", pk);
                }
                self.resize_done(n, None);
            }
            (PKind::Close, r) => {
                if let Err(pk) = r {
                    self.op_panicked("close", pk);
                }
                self.close_finished();
            }
            (PKind::Status, Ok(b)) => match *b.downcast::<OpOut>().expect("opout") {
                // every figure is read under the lock, so the value describes the pool as it is now
                OpOut::Status(st) => self.judge_status(st, "status() that was parked before its lock"),
                _ => unreachable!(),
            },
            (PKind::Status, Err(pk)) => self.op_panicked("status", pk),
        }
    }

    pub(crate) fn op_panicked(&mut self, what: &str, pk: PanicKind) {
        if matches!(pk, PanicKind::Injected) {
            // a fault injected into a callback (a panicking Manager::detach) surfaced through
            // this operation: expected, the pool must merely stay usable
            self.label("op:injected-panic");
            return;
        }
        self.flag(
            "pool-operation-panicked",
            &["C02", "C06", "C07", "C09", "C11", "C01", "C03"],
            format!("{} panicked: {:?}", what, pk),
        );
    }

    pub(crate) fn get_panicked(&mut self, g: usize, pk: PanicKind) {
        self.c07_get_released(g);
        self.gets[g].state = GState::Done(GetEnd::Panicked);
        self.saw_fault_get = true;
        match pk {
            PanicKind::Injected => {
                self.c03_nt = true;
                self.label("get:injected-panic");
            }
            PanicKind::Foreign(msg) => {
                self.flag(
                    "get-panicked",
                    &["C02", "C11", "C03", "C01", "C04", "C06", "C07"],
                    format!("get #{} panicked: {}", g, msg),
                );
            }
        }
        self.validate_get(g, &GetEnd::Panicked);
        self.iso_check(g, "panicked");
    }

    pub(crate) fn get_done(&mut self, g: usize, res: GetResult) {
        let op = self.gets[g].op;
        match res {
            Ok(obj) => {
                let id = obj.id;
                let started_at = self.gets[g].started_at;
                let mv = MetricsView::from(deadpool::managed::Object::metrics(&obj));
                self.gets[g].state = GState::Done(GetEnd::Ok(id));
                self.label("get:ok");
                {
                    let mut w = self.world.w();
                    if w.c09_took {
                        w.c09_take_then_get = true;
                    }
                }
                {
                    let mut w = self.world.w();
                    let live = w.live();
                    let o = w.objs.get(id as usize).cloned();
                    match o {
                        None => w.flag("unknown-object", &["C04"], format!("get returned unknown object {}", id)),
                        Some(o) => {
                            if o.destroyed || o.loc != Loc::InPool || o.in_hand != Some(op) || o.rejected || o.detaches > 0 {
                                w.flag(
                                    "bad-object-handed-out",
                                    &["C04", "C09", "C03", "C01"],
                                    format!(
                                        "get #{} returned object {} which is destroyed={} loc={:?} in_hand={:?} (op {}) rejected={} detaches={}",
                                        g, id, o.destroyed, o.loc, o.in_hand, op, o.rejected, o.detaches
                                    ),
                                );
                            }
                            // C13: metrics after the hand-out
                            let h = o.handouts + 1;
                            let mut bad = None;
                            if let Some(c) = o.created_at {
                                if c != mv.created {
                                    bad = Some("created instant changed".to_string());
                                }
                            }
                            if mv.recycle_count != (h - 1) as usize {
                                bad = Some(format!("recycle_count {} after hand-out number {}", mv.recycle_count, h));
                            }
                            match (h, mv.recycled) {
                                (1, Some(_)) => bad = Some("recycled is set on first hand-out".into()),
                                (1, None) => {}
                                (_, None) => bad = Some("recycled is None after a reuse".into()),
                                (_, Some(t)) => {
                                    if t < mv.created {
                                        bad = Some("recycled is earlier than created".into());
                                    }
                                    // the object was recycled by this very call (monotonic clock)
                                    if t < started_at {
                                        bad = Some("recycled is older than the start of the get() that recycled the object".into());
                                    }
                                    if let Some(prev) = o.last_seen.and_then(|m| m.recycled) {
                                        if t < prev {
                                            bad = Some("recycled moved backwards".into());
                                        }
                                    }
                                }
                            }
                            if let Some(b) = bad {
                                w.flag("metrics-after-handout", &["C13"], format!("object {}: {}", id, b));
                            }
                            let oi = &mut w.objs[id as usize];
                            oi.loc = Loc::Held;
                            oi.in_hand = None;
                            oi.handouts = h;
                            oi.last_seen = Some(mv);
                            oi.created_at.get_or_insert(mv.created);
                        }
                    }
                    let _ = live;
                }
                self.held.push(HeldObj { obj, id });
                let lim = self.case.cfg.max_size as usize;
                if self.held.len() > lim {
                    let n = self.held.len();
                    self.flag(
                        "too-many-holders",
                        &["C01"],
                        format!("{} callers hold an object at the same time (max_size {})", n, lim),
                    );
                }
                if self.held.len() == lim && lim >= 1 {
                    self.saw_full = true;
                }
                self.validate_get(g, &GetEnd::Ok(id));
                self.c07_admitted(g);
            }
            Err(e) => {
                self.c07_get_released(g);
                let s = perr(&e);
                self.label(&format!("get:{}", s.split('(').next().unwrap_or("")));
                if !matches!(e, PoolError::Closed | PoolError::Timeout(TimeoutType::Wait)) {
                    self.saw_fault_get = true;
                }
                self.gets[g].state = GState::Done(GetEnd::Err(s.clone()));
                drop(e);
                self.validate_get(g, &GetEnd::Err(s));
            }
        }
    }

    pub(crate) fn cancel_get(&mut self, g: usize, pause: Option<u8>) {
        let op = self.gets[g].op;
        let Some(fut) = self.gets[g].fut.take() else { return };
        self.c07_get_released(g);
        self.saw_cancel = true;
        // where was it suspended?
        let at = {
            let w = self.world.w();
            match w.active_call_of(op) {
                Some(c) => format!("{:?}", w.calls[c].kind),
                None => "SlotWait".to_string(),
            }
        };
        self.labels.push(format!("cancel-at:{}", at));
        if at != "SlotWait" || self.inside_get() > 0 || !self.held.is_empty() {
            self.c03_nt = true;
        }
        match pause {
            None => {
                let r = self.sched.run_inline(op, move || drop(fut));
                if let Err(pk) = r {
                    self.op_panicked("cancel", pk);
                }
                self.cancel_done(g);
            }
            Some(k) => {
                self.gets[g].state = GState::OnWorker;
                let f: Box<dyn FnOnce() -> Box<dyn Any + Send> + Send> = Box::new(move || {
                    drop(fut);
                    Box::new(OpOut::Unit) as Box<dyn Any + Send>
                });
                let r = self.sched.spawn(op, k as u32, f);
                self.handle_run(r, PKind::Cancel(g), op);
            }
        }
    }

    pub(crate) fn cancel_done(&mut self, g: usize) {
        self.gets[g].state = GState::Done(GetEnd::Cancelled);
        self.validate_get(g, &GetEnd::Cancelled);
        self.iso_check(g, "cancelled");
    }

    pub(crate) fn return_obj(&mut self, i: usize, pause: Option<u8>) {
        let h = self.held.remove(i);
        let id = h.id;
        let op = self.new_op(OpKind::Return);
        {
            let mut w = self.world.w();
            if let Some(o) = w.objs.get_mut(id as usize) {
                o.loc = Loc::InPool;
                o.in_hand = Some(op); // until the return has finished
            }
        }
        let obj = h.obj;
        let closed_before = self.close_done;
        self.c07_release_begins(1);
        match pause {
            None => {
                let before = if self.parked.is_empty() { self.snapshot() } else { None };
                let r = self.sched.run_inline(op, move || drop(obj));
                if let Err(pk) = r {
                    self.op_panicked("return", pk);
                }
                self.return_done(id, closed_before);
                // the surplus is discarded as it comes back
                if let Some(b) = before {
                    let kept = !self.world.w().objs[id as usize].destroyed;
                    if b.size > b.max_size && kept && !b.closed {
                        self.flag(
                            "surplus-kept-on-return",
                            &["C07"],
                            format!("object {} was returned while size exceeded max_size ({:?}) and was kept", id, b),
                        );
                    }
                    if b.size > b.max_size {
                        self.label("return:while-over-limit");
                    }
                }
            }
            Some(k) => {
                let f: Box<dyn FnOnce() -> Box<dyn Any + Send> + Send> = Box::new(move || {
                    drop(obj);
                    Box::new(OpOut::Unit) as Box<dyn Any + Send>
                });
                let r = self.sched.spawn(op, k as u32, f);
                self.handle_run(r, PKind::Return(id, closed_before), op);
            }
        }
    }

    pub(crate) fn return_done(&mut self, id: u32, closed_before: bool) {
        self.label("return");
        let mut w = self.world.w();
        let dead = w.pool_dead;
        let Some(o) = w.objs.get(id as usize).cloned() else { return };
        if o.destroyed {
            w.labels.push("return:discarded".into());
            return;
        }
        // `in_hand` may have been taken over by a get() that already popped the object
        let by_return = o.in_hand.map(|op| w.op_kind(op) == OpKind::Return).unwrap_or(false);
        if by_return {
            w.objs[id as usize].in_hand = None;
        }
        if w.objs[id as usize].in_hand.is_none() {
            if !w.idle_ref.contains(&id) {
                w.idle_ref.push_back(id);
            }
            if closed_before && !dead {
                w.flag(
                    "closed-pool-kept-returned-object",
                    &["C06"],
                    format!("object {} returned after close() completed was kept instead of discarded", id),
                );
            }
        }
    }

    pub(crate) fn take_obj(&mut self, i: usize, pause: Option<u8>) {
        let h = self.held.remove(i);
        let id = h.id;
        let op = self.new_op(OpKind::Take);
        {
            let mut w = self.world.w();
            if let Some(o) = w.objs.get_mut(id as usize) {
                o.loc = Loc::Out;
            }
            w.taking += 1;
        }
        let before = self.snapshot();
        let obj = h.obj;
        self.c07_release_begins(1);
        match pause {
            None => {
                let r = self.sched.run_inline(op, move || deadpool::managed::Object::take(obj));
                match r {
                    Ok(o) => {
                        self.take_done(id, o);
                        // sequential effect on the books
                        if let (Some(b), Some(a)) = (before, self.snapshot()) {
                            if self.parked.is_empty() && b.size > b.max_size && a.permits > b.permits && !b.closed {
                                self.flag(
                                    "take-released-surplus-slot",
                                    &["C07", "C09"],
                                    format!("Object::take freed a slot although size exceeded max_size: {:?} -> {:?}", b, a),
                                );
                            }
                            if self.parked.is_empty() && (a.size + 1 != b.size || a.users + 1 != b.users) {
                                self.flag(
                                    "take-books",
                                    &["C09"],
                                    format!("Object::take changed the books from {:?} to {:?}", b, a),
                                );
                            }
                        }
                    }
                    Err(pk) => {
                        self.world.w().taking -= 1;
                        self.op_panicked("take", pk)
                    }
                }
            }
            Some(k) => {
                let f: Box<dyn FnOnce() -> Box<dyn Any + Send> + Send> = Box::new(move || {
                    let o = deadpool::managed::Object::take(obj);
                    Box::new(OpOut::Take(o)) as Box<dyn Any + Send>
                });
                let r = self.sched.spawn(op, k as u32, f);
                self.handle_run(r, PKind::Take(id), op);
            }
        }
    }

    pub(crate) fn take_done(&mut self, id: u32, obj: Obj) {
        self.label("take");
        self.events_for_rest += 1;
        self.world.w().c09_took = true;
        {
            let mut w = self.world.w();
            w.taking -= 1;
            let dead = w.pool_dead;
            if obj.id != id {
                w.flag("take-wrong-object", &["C09"], format!("take of object {} returned object {}", id, obj.id));
            }
            let det = w.objs.get(id as usize).map(|o| o.detaches).unwrap_or(0);
            if det != 1 && !dead {
                w.flag(
                    "take-detach",
                    &["C09"],
                    format!("object {} was taken with {} Manager::detach calls", id, det),
                );
            }
        }
        self.out.push(obj);
    }

    pub(crate) fn retain(&mut self, pred: Pred, pause: Option<u8>) {
        let Some(pool) = self.pool.clone() else { return };
        let op = self.new_op(OpKind::Retain);
        let world = self.world.clone();
        let mut n: u32 = 0;
        let mut pos: u32 = 0;
        let predicate = move |obj: &Obj, m: deadpool::managed::Metrics| -> bool {
            let keep = match pred {
                Pred::Mask(mask) => (mask >> pos.min(15)) & 1 == 1,
                Pred::EveryOther(first) => (n % 2 == 0) == first,
                Pred::FirstK(k) => n < k as u32,
                Pred::FalseAfter(j) => n < j as u32,
            };
            n += 1;
            pos += 1;
            world.w().on_pred(obj.id, keep, MetricsView::from(&m));
            keep
        };
        let before = if self.parked.is_empty() {
            Some((self.snapshot(), self.idle_order()))
        } else {
            None
        };
        match pause {
            None => {
                let r = self.sched.run_inline(op, move || pool.retain(predicate));
                match r {
                    Ok(rr) => self.retain_done(op, rr, before),
                    Err(pk) => self.op_panicked("retain", pk),
                }
            }
            Some(k) => {
                let f: Box<dyn FnOnce() -> Box<dyn Any + Send> + Send> = Box::new(move || {
                    let rr = pool.retain(predicate);
                    Box::new(OpOut::Retain(rr)) as Box<dyn Any + Send>
                });
                let r = self.sched.spawn(op, k as u32, f);
                self.handle_run(r, PKind::Retain, op);
            }
        }
    }

    pub(crate) fn idle_order(&self) -> Vec<u32> {
        let mut v = vec![];
        if let Some(p) = &self.pool {
            p.verif_idle(|o, _| v.push(o.id));
        }
        v
    }

    pub(crate) fn retain_done(
        &mut self,
        op: u32,
        rr: RetainResult<Obj>,
        before: Option<(Option<ManagedSnapshot>, Vec<u32>)>,
    ) {
        self.events_for_rest += 1;
        // the predicate log of this retain = trailing Pred events of the log
        let preds: Vec<(u32, bool)> = {
            let w = self.world.w();
            let mut v = vec![];
            for e in w.log.iter() {
                if let Ev::Pred { op: o, id, keep } = e {
                    if *o == op {
                        v.push((*id, *keep));
                    }
                }
            }
            v
        };
        let expect_removed: Vec<u32> = preds.iter().filter(|p| !p.1).map(|p| p.0).collect();
        let got_removed: Vec<u32> = rr.removed.iter().map(|o| o.id).collect();
        let kept = preds.iter().filter(|p| p.1).count();
        // the statement fixes which objects are handed back, not their order
        let (mut er, mut gr) = (expect_removed.clone(), got_removed.clone());
        er.sort();
        gr.sort();
        if expect_removed != got_removed && er == gr {
            self.label("retain:removed-in-another-order");
        }
        if er != gr || kept != rr.retained {
            self.flag(
                "retain-result",
                &["C09"],
                format!(
                    "retain: predicate verdicts {:?} but removed {:?}, retained {}",
                    preds, got_removed, rr.retained
                ),
            );
        }
        if !expect_removed.is_empty() && kept > 0 {
            self.label("retain:proper-subset");
        }
        if preds.len() >= 3 {
            self.label("retain:idle>=3");
        }
        // hand-over
        {
            let mut w = self.world.w();
            for o in &rr.removed {
                let id = o.id;
                if let Some(oi) = w.objs.get_mut(id as usize) {
                    let det = oi.detaches;
                    let was = oi.loc;
                    oi.loc = Loc::Out;
                    if det != 1 {
                        w.flag("retain-detach", &["C09"], format!("object {} removed by retain with {} Manager::detach calls", id, det));
                    }
                    // (whether it was idle is judged when the predicate is called)
                    let _ = was;
                }
                w.idle_ref.retain(|x| *x != id);
            }
        }
        if let Some((Some(b), order)) = before {
            // inline retain: once per idle object (the statement does not fix the visiting order)
            let ids: Vec<u32> = preds.iter().map(|p| p.0).collect();
            let (mut ids_sorted, mut order_sorted) = (ids.clone(), order.clone());
            ids_sorted.sort();
            order_sorted.sort();
            if ids != order && ids_sorted == order_sorted {
                self.label("retain:visited-in-another-order");
            }
            if ids_sorted != order_sorted {
                self.flag(
                    "retain-coverage",
                    &["C09"],
                    format!("retain asked the predicate about {:?} but the idle queue was {:?}", ids, order),
                );
            }
            if let Some(a) = self.snapshot() {
                if a.size + got_removed.len() != b.size
                    || a.permits != b.permits
                    || a.max_size != b.max_size
                    || a.users != b.users
                    || a.idle + got_removed.len() != b.idle
                {
                    self.flag(
                        "retain-books",
                        &["C09"],
                        format!("retain removing {} objects changed the books from {:?} to {:?}", got_removed.len(), b, a),
                    );
                }
            }
        }
        self.out.extend(rr.removed);
    }

    pub(crate) fn resize(&mut self, n: usize, pause: Option<u8>) {
        let Some(pool) = self.pool.clone() else { return };
        let op = self.new_op(OpKind::Resize);
        self.resize_started = true;
        self.events_for_rest += 1;
        self.tick += 1;
        // "clean" start: at least fully populated, everything idle, nothing in flight but resizes - none
        // of the preconditions of the known resize findings (unused capacity, objects out,
        // a return or take caught between its unlock and its permit) is present
        let clean = {
            let only_resizes_parked = self.parked.iter().all(|p| matches!(p.kind, PKind::Resize(_)));
            let no_gets = !self.gets.iter().any(|g| g.is_inside());
            match self.snapshot() {
                Some(sn) => only_resizes_parked && no_gets && self.held.is_empty() && sn.size == sn.idle && sn.size >= sn.max_size && sn.users == 0,
                None => false,
            }
        };
        self.resize_hist.push((self.tick, None, n, clean));
        let before = if self.quiescent() { self.snapshot() } else { None };
        match pause {
            None => {
                let r = self.sched.run_inline(op, move || pool.resize(n));
                if let Err(pk) = r {
                    self.op_panicked("resize", pk);
                }
                self.resize_done(n, before);
            }
            Some(k) => {
                let f: Box<dyn FnOnce() -> Box<dyn Any + Send> + Send> = Box::new(move || {
                    pool.resize(n);
                    Box::new(OpOut::Unit) as Box<dyn Any + Send>
                });
                let r = self.sched.spawn(op, k as u32, f);
                self.handle_run(r, PKind::Resize(n), op);
            }
        }
    }

    pub(crate) fn resize_done(&mut self, n: usize, before: Option<ManagedSnapshot>) {
        self.label("resize");
        let after = self.snapshot();
        if self.close_done {
            // resize() has no effect on a closed pool
            if let (Some(b), Some(a)) = (before, after) {
                if a != b {
                    self.flag(
                        "resize-after-close",
                        &["C06"],
                        format!("resize({}) on a closed pool changed {:?} to {:?}", n, b, a),
                    );
                }
            }
            if let Some(st) = self.status() {
                if st.max_size != 0 {
                    self.flag(
                        "closed-pool-max-size",
                        &["C06"],
                        format!("status().max_size is {} after close() and resize({})", st.max_size, n),
                    );
                }
            }
            return;
        }
        if self.close_started {
            // raced with close: C06 judges the final state at quiescence
            return;
        }
        // Where inside a resize() the new limit takes effect is not part of any statement: when
        // the execution intervals of two resizes overlap either may have been the later one.
        // The pool's own max_size tells which; it must be the target of this call or of a
        // call that overlapped it.
        self.tick += 1;
        let now = self.tick;
        let mut rivals: Vec<usize> = vec![];
        let mut clean_start = false;
        if let Some(i) = self.resize_hist.iter().position(|e| e.1.is_none() && e.2 == n) {
            self.resize_hist[i].1 = Some(now);
            clean_start = self.resize_hist[i].3;
            let start = self.resize_hist[i].0;
            for (j, e) in self.resize_hist.iter().enumerate() {
                if j != i && e.1.map(|end| end > start).unwrap_or(true) {
                    rivals.push(e.2);
                }
            }
        }
        let n_called = n;
        let n = match after {
            Some(a) if a.max_size != n && rivals.contains(&a.max_size) => {
                self.label("resize:overlapping-resize-won");
                a.max_size
            }
            _ => n,
        };
        self.limit = Some(n);
        if let Some(a) = after {
            if self.parked.iter().all(|p| !matches!(p.kind, PKind::Resize(_) | PKind::Close)) {
                if a.max_size != n {
                    self.flag(
                        "resize-max-size",
                        &["C07"],
                        format!("status().max_size is {} after resize({}) returned", a.max_size, n),
                    );
                }
                // idle objects in excess of n have been released: judged against the objects that
                // really exist (the pool's own size counter may be what is wrong)
                let live = self.world.w().objs.iter().filter(|o| !o.destroyed && o.loc != Loc::Out).count();
                if (a.size > n || live > n) && a.idle > 0 && before.is_some() {
                    self.c07_idle_surplus(n, a);
                }
            }
        }
        let (b, a) = (before, after);
        self.c07_resized(n, n_called, b, a, clean_start);
    }

    pub(crate) fn close(&mut self, pause: Option<u8>) {
        let Some(pool) = self.pool.clone() else { return };
        let op = self.new_op(OpKind::Close);
        if !self.close_started {
            let (waiting, _) = self.classify_pending();
            let idle = self.snapshot().map(|s| s.idle).unwrap_or(0);
            if pause.is_some() || !self.parked.is_empty() || !waiting.is_empty() || idle > 0 {
                self.c06_close_step = Some(self.step);
            }
        }
        self.close_started = true;
        self.events_for_rest += 1;
        match pause {
            None => {
                let r = self.sched.run_inline(op, move || pool.close());
                if let Err(pk) = r {
                    self.op_panicked("close", pk);
                }
                self.close_finished();
            }
            Some(k) => {
                let f: Box<dyn FnOnce() -> Box<dyn Any + Send> + Send> = Box::new(move || {
                    pool.close();
                    Box::new(OpOut::Unit) as Box<dyn Any + Send>
                });
                let r = self.sched.spawn(op, k as u32, f);
                self.handle_run(r, PKind::Close, op);
            }
        }
    }

    pub(crate) fn close_finished(&mut self) {
        self.label("close");
        if !self.close_done {
            self.close_done = true;
            // every getter waiting for a slot must now fail with Closed
            let (waiting, _) = self.classify_pending();
            for g in waiting {
                self.gets[g].waiting_at_close = true;
                if !self.gets[g].flag.is_set() {
                    self.flag(
                        "waiter-not-woken-by-close",
                        &["C06", "C02"],
                        format!("get #{} was waiting for a slot when close() returned and was not woken", g),
                    );
                }
            }
            if !waiting_is_empty(&self.gets) {
                self.label("close:with-waiters");
            }
        }
        if let Some(p) = &self.pool {
            if !p.is_closed() {
                self.flag("is-closed-false", &["C06"], "is_closed() is false after close() returned".into());
            }
        }
    }

    /// status() as an operation of its own that can be parked at its lock acquisition
    pub(crate) fn status_at(&mut self, pause: u8) {
        let Some(pool) = self.pool.clone() else { return };
        let op = self.new_op(OpKind::Status);
        let f: Box<dyn FnOnce() -> Box<dyn Any + Send> + Send> = Box::new(move || Box::new(OpOut::Status(pool.status())) as Box<dyn Any + Send>);
        let r = self.sched.spawn(op, pause as u32, f);
        self.handle_run(r, PKind::Status, op);
    }

    pub(crate) fn drop_pool(&mut self) {
        if !self.parked.is_empty()
            || self
                .gets
                .iter()
                .any(|g| matches!(g.state, GState::Pending | GState::OnWorker))
        {
            return;
        }
        if let Some(p) = self.pool.take() {
            *vcore::sched::lock(&self.world.lock_probe) = None;
            let op = self.new_op(OpKind::DropPool);
            self.world.w().pool_dead = true;
            let r = self.sched.run_inline(op, move || drop(p));
            if let Err(pk) = r {
                self.op_panicked("drop-pool", pk);
            }
            self.label("drop-pool");
        }
    }

    // --------------------------------------------------------------- monitors

    /// C04 / C13: the calls made by get #g against its result
    pub(crate) fn validate_get(&mut self, g: usize, end: &GetEnd) {
        let op = self.gets[g].op;
        let cfg = &self.case.cfg;
        let (npc, npr, npo) = (cfg.post_create.len(), cfg.pre_recycle.len(), cfg.post_recycle.len());
        let mut w = self.world.w();
        let calls: Vec<CallRec> = w.calls.iter().filter(|c| c.op == op).cloned().collect();
        let mut problems: Vec<String> = vec![];
        let mut c13: Vec<String> = vec![];
        // split into attempts
        let mut attempts: Vec<Vec<CallRec>> = vec![];
        let mut cur_obj: Option<Option<u32>> = None;
        for c in &calls {
            let key = match (c.kind, c.res) {
                (CallKind::Create, Some(CallRes::Created(id))) => Some(id),
                (CallKind::Create, _) => None,
                _ => c.obj,
            };
            let same = match (cur_obj, c.kind) {
                (_, CallKind::Create) => false,
                (Some(k), _) => k == key,
                (None, _) => false,
            };
            if !same {
                attempts.push(vec![]);
                cur_obj = Some(key);
            }
            attempts.last_mut().unwrap().push(c.clone());
        }
        let n_att = attempts.len();
        let mut rejected_n = 0;
        for (ai, att) in attempts.iter().enumerate() {
            let last = ai + 1 == n_att;
            let is_create = att[0].kind == CallKind::Create;
            // expected order of steps
            let expected: Vec<CallKind> = if is_create {
                std::iter::once(CallKind::Create)
                    .chain((0..npc).map(|i| CallKind::PostCreate(i as u8)))
                    .collect()
            } else {
                (0..npr)
                    .map(|i| CallKind::PreRecycle(i as u8))
                    .chain(std::iter::once(CallKind::Recycle))
                    .chain((0..npo).map(|i| CallKind::PostRecycle(i as u8)))
                    .collect()
            };
            let kinds: Vec<CallKind> = att.iter().map(|c| c.kind).collect();
            if kinds.len() > expected.len() || kinds[..] != expected[..kinds.len()] {
                problems.push(format!("attempt {} ran steps {:?}, expected a prefix of {:?}", ai, kinds, expected));
            }
            // nothing after a failing step
            for (ci, c) in att.iter().enumerate() {
                let ok = matches!(c.res, Some(CallRes::Ok) | Some(CallRes::Created(_)));
                if !ok && ci + 1 != att.len() {
                    problems.push(format!("attempt {} continued after failing step {:?} -> {:?}", ai, c.kind, c.res));
                }
            }
            let all_ok = att
                .iter()
                .all(|c| matches!(c.res, Some(CallRes::Ok) | Some(CallRes::Created(_))));
            let complete = all_ok && kinds.len() == expected.len();
            if !last {
                if is_create {
                    problems.push(format!("get continued after a create attempt (attempt {})", ai));
                } else if all_ok {
                    problems.push(format!("get abandoned object {:?} although every step succeeded (attempt {})", att[0].obj, ai));
                }
            }
            // objects of failed attempts: detached exactly once, destroyed
            let obj_id = if is_create {
                match att[0].res {
                    Some(CallRes::Created(id)) => Some(id),
                    _ => None,
                }
            } else {
                att[0].obj
            };
            let handed = matches!(end, GetEnd::Ok(id) if Some(*id) == obj_id) && last;
            if let Some(id) = obj_id {
                if !handed {
                    rejected_n += 1;
                    if let Some(o) = w.objs.get(id as usize) {
                        if !o.destroyed || (o.detaches != 1 && o.destroyed_alive) {
                            problems.push(format!(
                                "object {} of unsuccessful attempt {} is destroyed={} with {} detach calls",
                                id, ai, o.destroyed, o.detaches
                            ));
                        }
                    }
                }
                // C13 metrics seen by the steps of this attempt
                if let Some(o) = w.objs.get(id as usize) {
                    let h_before = if handed { o.handouts - 1 } else { o.handouts };
                    for c in att {
                        if let Some(m) = c.metrics {
                            if is_create {
                                if m.recycle_count != 0 || m.recycled.is_some() {
                                    c13.push(format!("{:?} saw {:?} for a fresh object", c.kind, m));
                                }
                            } else {
                                let prev = if handed { None } else { o.last_seen };
                                let _ = prev;
                                if h_before >= 1 && m.recycle_count != (h_before - 1) as usize {
                                    c13.push(format!(
                                        "{:?} saw recycle_count {} for object {} handed out {} times before",
                                        c.kind, m.recycle_count, id, h_before
                                    ));
                                }
                                if h_before == 1 && m.recycled.is_some() {
                                    c13.push(format!("{:?} saw recycled=Some for object {} before its first reuse", c.kind, id));
                                }
                                if let Some(c0) = o.created_at {
                                    if m.created != c0 {
                                        c13.push(format!("{:?} saw a different created instant for object {}", c.kind, id));
                                    }
                                }
                            }
                        }
                    }
                }
            }
            // result
            if last {
                match end {
                    GetEnd::Ok(id) => {
                        if !complete || obj_id != Some(*id) {
                            problems.push(format!(
                                "get returned object {} but its last attempt was {:?} on {:?} (complete={})",
                                id, kinds, obj_id, complete
                            ));
                        }
                    }
                    GetEnd::Err(e) => {
                        let lastc = att.last().unwrap();
                        let want = match (lastc.kind, lastc.res) {
                            (CallKind::Create, Some(CallRes::ErrBackend(n))) => Some(format!("Backend({})", n)),
                            (CallKind::PostCreate(_), Some(CallRes::ErrMsg(n))) => {
                                Some(format!("PostCreateHook(Message(m{}))", n))
                            }
                            (CallKind::PostCreate(_), Some(CallRes::ErrBackend(n))) => {
                                Some(format!("PostCreateHook(Backend({}))", n))
                            }
                            _ => None,
                        };
                        if want.as_deref() != Some(e.as_str()) {
                            problems.push(format!(
                                "get returned Err({}) but its last step was {:?} -> {:?} (expected {:?})",
                                e, lastc.kind, lastc.res, want
                            ));
                        }
                    }
                    GetEnd::Panicked => {
                        let lastc = att.last().unwrap();
                        if lastc.res != Some(CallRes::Panic) {
                            problems.push(format!("get panicked but its last step was {:?} -> {:?}", lastc.kind, lastc.res));
                        }
                    }
                    GetEnd::Cancelled => {}
                }
            }
        }
        if attempts.is_empty() {
            match end {
                GetEnd::Ok(id) => problems.push(format!("get returned object {} without any create / recycle step", id)),
                GetEnd::Err(e) => {
                    let zero = self.gets[g].zero_wait;
                    let ok = match e.as_str() {
                        "Timeout(Wait)" => zero,
                        "Closed" => self.close_started,
                        _ => false,
                    };
                    if !ok {
                        problems.push(format!(
                            "get returned Err({}) without any step (zero_wait={}, close started={})",
                            e, zero, self.close_started
                        ));
                    }
                }
                GetEnd::Panicked => problems.push("get panicked outside any manager / hook call".into()),
                GetEnd::Cancelled => {}
            }
        }
        if rejected_n > 0 {
            w.labels.push("get:with-rejects".into());
            if matches!(end, GetEnd::Ok(_)) {
                w.labels.push("get:ok-after-reject".into());
            }
            if matches!(end, GetEnd::Err(_)) {
                w.labels.push("get:err-after-reject".into());
            }
        }
        for p in problems {
            w.flag("get-steps", &["C04"], format!("get #{}: {}", g, p));
        }
        for p in c13 {
            w.flag("metrics-seen-by-steps", &["C13"], format!("get #{}: {}", g, p));
        }
        drop(w);
        // C06 / C02: results around close
        if let GetEnd::Ok(id) = end {
            if self.gets[g].after_close {
                self.flag(
                    "get-after-close-yielded-object",
                    &["C06"],
                    format!("get #{} started after close() returned and yielded object {}", g, id),
                );
            } else if self.gets[g].waiting_at_close {
                self.flag(
                    "waiter-at-close-yielded-object",
                    &["C06"],
                    format!("get #{} was waiting for a slot when close() returned and yielded object {}", g, id),
                );
            }
        }
        if let GetEnd::Err(e) = end {
            if (self.gets[g].after_close || self.gets[g].waiting_at_close) && e != "Closed" {
                // a get that had passed admission may still fail with its own error
                if self.gets[g].after_close {
                    self.flag(
                        "get-after-close-wrong-error",
                        &["C06"],
                        format!("get #{} started after close() returned and failed with {} instead of Closed", g, e),
                    );
                }
            }
            // zero-wait model at a quiescent start (C02: no capacity lost)
            if let Some(free) = self.gets[g].start_free {
                if self.gets[g].zero_wait && self.gets[g].polls == 1 && e == "Timeout(Wait)" && free {
                    self.flag(
                        "capacity-lost",
                        ALL_CAP,
                        format!("zero-wait get #{} timed out although the pool had a free slot", g),
                    );
                }
            }
        }
    }

    /// checks that must hold at every step and at every park (operations in progress)
    pub(crate) fn check_always(&mut self, at: &str) {
        self.drain_flags();
        let max = self.case.cfg.max_size as usize;
        let (live, creating, taking) = {
            let w = self.world.w();
            (w.live(), w.creating as usize, w.taking as usize)
        };
        if live + creating > max {
            self.flag(
                "too-many-live-objects",
                &["C01"],
                format!("{}: {} objects exist and {} are being created (max_size {})", at, live, creating, max),
            );
        }
        if live + creating == max && max >= 1 {
            self.saw_full = true;
        }
        if let Some(st) = self.status() {
            self.judge_status(st, at);
        }
    }

    /// plausibility of a status() value against ground truth at this instant (C11)
    pub(crate) fn judge_status(&mut self, st: Status, at: &str) {
        let (live, creating, taking) = {
            let w = self.world.w();
            (w.live(), w.creating as usize, w.taking as usize)
        };
        if let Some(sn) = self.snapshot() {
            let exist = live + creating + taking;
            let inside = self.inside_get();
            let big = 1usize << 32;
            let mut bad: Vec<String> = vec![];
            if st.size > exist {
                bad.push(format!("size {} exceeds the {} objects that exist or are being created", st.size, exist));
            }
            if st.available > st.size {
                bad.push(format!("available {} exceeds size {}", st.available, st.size));
            }
            if st.waiting > inside {
                bad.push(format!("waiting {} exceeds the {} callers inside get()", st.waiting, inside));
            }
            if st.size >= big || st.available >= big || st.waiting >= big || st.max_size >= big || sn.users >= big || sn.permits >= big {
                bad.push(format!("a counter wrapped around: {:?} {:?}", st, sn));
            }
            if st.size > st.max_size && !self.resize_started && !self.close_started {
                bad.push(format!("size {} exceeds max_size {} although no shrink happened", st.size, st.max_size));
            }
            for b in bad {
                self.flag("status-implausible", &["C11"], format!("{}: {} ({:?})", at, b, st));
            }
        }
    }

    pub(crate) fn at_park(&mut self) {
        self.check_always("at a park");
    }

    pub(crate) fn after_step(&mut self) {
        self.check_always("after a step");
        if self.violation.is_some() {
            return;
        }
        if self.quiescent() {
            self.check_quiescent("after a step");
        } else {
            self.c07_not_quiescent();
        }
    }

    pub(crate) fn check_quiescent(&mut self, at: &str) {
        let Some(sn) = self.snapshot() else { return };
        let Some(st) = self.status() else { return };
        let (waiting, gated) = self.classify_pending();
        let held = self.held.len();
        let max = self.case.cfg.max_size as usize;
        self.label("quiescent-point");
        if !waiting.is_empty() {
            self.saw_waiter_at_quiescence = true;
        }
        if self.close_done {
            if !waiting.is_empty() {
                self.flag(
                    "waiter-survived-close",
                    &["C06", "C02"],
                    format!("{}: gets {:?} are still waiting for a slot after close() returned", at, waiting),
                );
            }
            self.check_closed_rest(at, &sn, &st);
        } else if !self.resize_started && !self.close_started {
            // constant max_size: conservation of capacity
            let used = held + gated.len();
            if !waiting.is_empty() && used < max {
                self.flag(
                    "stranded-waiter",
                    &["C02", "C03", "C09"],
                    format!(
                        "{}: gets {:?} wait for a slot although only {} of {} slots are in use",
                        at, waiting, used, max
                    ),
                );
            }
            if sn.permits + used != max {
                self.flag(
                    if sn.permits + used < max { "capacity-lost" } else { "capacity-surplus" },
                    if sn.permits + used < max { ALL_CAP } else { &["C01", "C02", "C03", "C09"] },
                    format!(
                        "{}: {} free permits + {} objects out + {} admitted getters != max_size {} ({:?})",
                        at, sn.permits, held, gated.len(), max, sn
                    ),
                );
            }
            if sn.users != held + waiting.len() + gated.len() {
                self.flag(
                    "users-drift",
                    &["C02", "C03", "C11"],
                    format!(
                        "{}: users counter {} but {} objects out and {} callers inside get()",
                        at,
                        sn.users,
                        held,
                        waiting.len() + gated.len()
                    ),
                );
            }
        }
        if !self.close_started {
            self.c07_quiescent(at, &sn, waiting.len(), gated.len());
        }
        // C11: exact at rest (no operation in progress: nobody inside a manager / hook call)
        if gated.is_empty() {
            let (idle, held_truth) = {
                let w = self.world.w();
                (w.idle_truth().len(), w.held_truth())
            };
            let expect_max = self.effective_limit();
            let mut bad = vec![];
            if st.max_size != expect_max && !(self.close_started && !self.close_done) {
                bad.push(format!("max_size {} but configured {}", st.max_size, expect_max));
            }
            if st.size != idle + held_truth {
                bad.push(format!("size {} but {} idle + {} checked out exist", st.size, idle, held_truth));
            }
            if st.available != idle && waiting.is_empty() {
                bad.push(format!("available {} but {} idle", st.available, idle));
            }
            if st.waiting != waiting.len() && idle == 0 {
                bad.push(format!("waiting {} but {} callers blocked in get()", st.waiting, waiting.len()));
            }
            if sn.idle != idle {
                bad.push(format!("idle queue holds {} but {} objects are idle by ground truth", sn.idle, idle));
            }
            for b in bad {
                self.flag("status-at-rest", &["C11"], format!("{}: {} ({:?})", at, b, st));
            }
            if self.events_for_rest > 0 || self.saw_fault_get || self.saw_cancel {
                self.rest_after_event = true;
            }
            self.label("rest-point");
        }
    }

    /// C06: what a closed pool looks like at quiescence
    pub(crate) fn check_closed_rest(&mut self, at: &str, sn: &ManagedSnapshot, st: &Status) {
        let idle_truth = self.world.w().idle_truth();
        if sn.idle != 0 || !idle_truth.is_empty() {
            self.flag(
                "closed-pool-keeps-idle",
                &["C06"],
                format!("{}: closed pool still holds idle objects {:?} ({:?})", at, idle_truth, sn),
            );
        }
        if st.max_size != 0 {
            self.flag(
                "closed-pool-max-size",
                &["C06"],
                format!("{}: status().max_size is {} on a closed pool", at, st.max_size),
            );
        }
        if !sn.closed {
            self.flag("is-closed-false", &["C06"], format!("{}: pool no longer closed", at));
        }
    }

    // ------------------------------------------------------------ end of history

    pub(crate) fn poll_woken_fixpoint(&mut self) {
        for _ in 0..200 {
            if self.violation.is_some() || self.inconclusive.is_some() {
                return;
            }
            let p: Vec<usize> = self
                .pending_gets()
                .into_iter()
                .filter(|i| self.gets[*i].flag.is_set())
                .collect();
            let Some(&g) = p.first() else { return };
            self.poll_get(g, None);
            self.check_always("while settling");
        }
    }

    pub(crate) fn finish(&mut self) {
        self.disturb += 2; // no isolated call survives the settling phase
        self.note("finish: resume parked operations".into());
        if self.parked.iter().any(|p| !matches!(p.kind, PKind::Resize(_))) || self.gets.iter().any(|g| g.state == GState::Pending && g.flag.is_set()) {
            self.c07.non_resize_in_stretch = true;
        }
        while !self.parked.is_empty() && self.violation.is_none() && self.inconclusive.is_none() {
            self.resume(0, None);
            self.check_always("while settling");
        }
        self.poll_woken_fixpoint();
        if self.violation.is_some() || self.inconclusive.is_some() {
            return;
        }
        self.check_always("at the end");
        self.check_quiescent("at the end of the history");
        if self.violation.is_some() {
            return;
        }
        // wrap up: open every gate, settle, cancel what is left, return everything
        self.note("finish: wrap up".into());
        self.world.w().probe_mode = true;
        for _ in 0..50 {
            let gates = self.world.w().closed_gates();
            if gates.is_empty() {
                break;
            }
            for gt in gates {
                self.open_gate(gt);
            }
            self.poll_woken_fixpoint();
        }
        for g in self.pending_gets() {
            self.cancel_get(g, None);
        }
        self.poll_woken_fixpoint();
        while !self.held.is_empty() && self.violation.is_none() {
            self.return_obj(0, None);
            self.poll_woken_fixpoint();
        }
        self.check_always("after wrap up");
        if self.violation.is_some() || self.inconclusive.is_some() {
            return;
        }
        if self.pool.is_some() {
            self.check_quiescent("after wrap up");
            if self.violation.is_some() {
                return;
            }
            self.probe();
        }
        self.nontrivial();
    }

    /// capacity probe through the public API only
    pub(crate) fn probe(&mut self) {
        let Some(pool) = self.pool.clone() else { return };
        let limit = self.effective_limit();
        let zero = Timeouts {
            wait: Some(Duration::ZERO),
            create: None,
            recycle: None,
        };
        let op = self.new_op(OpKind::Probe);
        let mut got: Vec<PObject> = vec![];
        let mut results: Vec<String> = vec![];
        let waker = Waker::from(WakeFlag::new());
        let extra = if self.ctx.prop == "C07" { self.c07.d_prev.max(0) as usize } else { 0 };
        for _ in 0..limit + 1 + extra {
            if results.last().map(|r: &String| r != "Ok").unwrap_or(false) {
                break;
            }
            let p2 = pool.clone();
            let mut fut: GetFut = Box::pin(async move { p2.timeout_get(&zero).await });
            let r = self.sched.run_inline(op, || {
                let mut cx = Context::from_waker(&waker);
                fut.as_mut().poll(&mut cx)
            });
            let _ = self.sched.run_inline(op, move || drop(fut));
            match r {
                Ok(Poll::Ready(Ok(o))) => {
                    results.push("Ok".into());
                    let mut w = self.world.w();
                    if let Some(oi) = w.objs.get_mut(o.id as usize) {
                        oi.loc = Loc::Held;
                        oi.in_hand = None;
                        oi.handouts += 1;
                    }
                    drop(w);
                    got.push(o);
                }
                Ok(Poll::Ready(Err(e))) => results.push(perr(&e)),
                Ok(Poll::Pending) => results.push("Pending".into()),
                Err(pk) => results.push(format!("panic {:?}", pk)),
            }
        }
        self.label("probe");
        let expected: Vec<String> = if self.close_done {
            vec!["Closed".to_string(); limit + 1]
        } else {
            let mut v = vec!["Ok".to_string(); limit];
            v.push("Timeout(Wait)".into());
            v
        };
        if results != expected {
            let detail = format!(
                "capacity probe after everything was returned: expected {:?}, got {:?} (limit {})",
                expected, results, limit
            );
            if self.resize_started && !self.close_done {
                self.c07_probe_mismatch(detail, got.len(), limit);
            } else if self.close_done {
                self.flag("probe-closed", &["C06"], detail);
            } else {
                self.flag("capacity-probe", &["C02", "C03", "C09"], detail);
            }
        }
        self.drain_flags();
        // give the probe objects back
        for o in got {
            let id = o.id;
            {
                let mut w = self.world.w();
                if let Some(oi) = w.objs.get_mut(id as usize) {
                    oi.loc = Loc::InPool;
                }
            }
            let rop = self.new_op(OpKind::Return);
            let _ = self.sched.run_inline(rop, move || drop(o));
        }
        self.drain_flags();
    }

    pub(crate) fn nontrivial(&mut self) {
        let prop = self.ctx.prop.as_str();
        let max = self.case.cfg.max_size;
        let faults = self.world.w().faults_seen > 0;
        self.nt = match prop {
            "C01" => self.saw_full && max >= 1 && (faults || self.saw_cancel || self.overlap),
            "C02" => (self.saw_fault_get || self.saw_cancel) && (self.saw_full || self.saw_waiter_at_quiescence),
            "C11" => self.rest_after_event,
            "C07" => self.c07.shrink_with_out || self.c07.grow_with_waiters || self.c07.shrink_then_grow,
            "C03" => self.c03_nt,
            "C04" => self.world.w().labels.iter().any(|l| l == "get:with-rejects"),
            "C06" => self.c06_close_step.map(|c| c + 1 < self.case.steps.len()).unwrap_or(false),
            "C08" => self.world.w().c08_nt,
            "C09" => {
                let w = self.world.w();
                self.labels.iter().any(|l| l == "retain:proper-subset")
                    || w.c09_take_then_get
                    || w.c09_released_by_shrink_or_close
            }
            "C13" => self.world.w().objs.iter().any(|o| o.handouts >= 3),
            _ => self.n_steps_run > 0,
        };
        self.nt = self.nt || self.nt_extra();
    }

    pub(crate) fn nt_extra(&self) -> bool {
        false
    }

    pub(crate) fn teardown(&mut self) {
        // never leave parked threads behind
        while !self.parked.is_empty() {
            let p = self.parked.remove(0);
            let _ = self.sched.resume(p.worker, None);
        }
        let op = self.new_op(OpKind::Final);
        *vcore::sched::lock(&self.world.lock_probe) = None;
        self.world.w().probe_mode = true;
        let gets = std::mem::take(&mut self.gets);
        let held = std::mem::take(&mut self.held);
        let out = std::mem::take(&mut self.out);
        let pool = self.pool.take();
        let world = self.world.clone();
        let r = self.sched.run_inline(op, move || {
            drop(gets);
            // objects that outlive every pool handle can still be used and dropped
            let mut keep = vec![];
            for h in held {
                keep.push(h);
            }
            world.w().pool_dead = true;
            drop(pool);
            for h in keep {
                let id = h.obj.id;
                assert_eq!(id, h.id);
                drop(h);
            }
            drop(out);
        });
        if let Err(pk) = r {
            if self.violation.is_none() && self.inconclusive.is_none() {
                self.op_panicked("teardown (dropping objects after the pool)", pk);
            }
        }
        if self.violation.is_none() && self.inconclusive.is_none() {
            self.drain_flags();
            let leaked: Vec<usize> = {
                let w = self.world.w();
                w.objs
                    .iter()
                    .enumerate()
                    .filter(|(_, o)| !o.destroyed)
                    .map(|(i, _)| i)
                    .collect()
            };
            if !leaked.is_empty() {
                self.flag(
                    "object-leaked",
                    &["C03", "C02", "C06"],
                    format!("objects {:?} were never destroyed although the pool and all handles are gone", leaked),
                );
            }
        }
    }
}

fn mk_hook(world: &Arc<World>, k: HookKind, kind: CallKind) -> Hook<Mgr> {
    match k {
        HookKind::Sync => sync_hook(world.clone(), kind),
        HookKind::Async => async_hook(world.clone(), kind),
    }
}

fn waiting_is_empty(gets: &[GetSlot]) -> bool {
    !gets.iter().any(|g| g.waiting_at_close)
}
