//! Sharded proptest driver, replay, known findings, evidence.

use std::collections::{BTreeMap, BTreeSet, HashSet};
use std::fmt::Debug;
use std::hash::{Hash, Hasher};
use std::path::PathBuf;
use std::sync::atomic::{AtomicBool, Ordering};
use std::sync::{Arc, Mutex};
use std::time::Instant;

use proptest::strategy::{BoxedStrategy, Strategy};
use proptest::test_runner::{Config, RngAlgorithm, TestCaseError, TestError, TestRng, TestRunner};
use serde::{de::DeserializeOwned, Deserialize, Serialize};
use serde_json::{json, Value};

#[derive(Clone, Copy, Debug, PartialEq, Eq)]
pub enum Tier {
    Quick,
    Thorough,
}

impl Tier {
    pub fn name(self) -> &'static str {
        match self {
            Tier::Quick => "quick",
            Tier::Thorough => "thorough",
        }
    }
}

#[derive(Clone, Debug)]
pub struct Ctx {
    pub prop: String,
    pub tier: Tier,
    pub seed: u64,
    /// ids of findings listed in known_findings.json for this property
    pub known: BTreeSet<String>,
    /// replay mode: print the trace
    pub replay: bool,
}

impl Ctx {
    pub fn is_known(&self, id: &str) -> bool {
        self.known.contains(id)
    }

    /// context for code that runs cases outside the sharded driver (fuzz targets)
    pub fn for_prop(prop: &str, seed: u64) -> Ctx {
        Ctx {
            prop: prop.to_string(),
            tier: Tier::Thorough,
            seed,
            known: load_known(prop).iter().map(|k| k.id.clone()).collect(),
            replay: false,
        }
    }
}

/// Writes a replay file for a case found outside the sharded driver and returns its path.
pub fn write_external_replay<E: Engine>(ctx: &Ctx, case: &E::Case, violation: &Violation, origin: &str) -> PathBuf {
    let f = Failure {
        case: case.clone(),
        violation: violation.clone(),
        stage: origin.to_string(),
        shard: 0,
    };
    write_replay::<E>(ctx, &f)
}

#[derive(Clone, Debug, Serialize, Deserialize)]
pub struct Violation {
    pub oracle: String,
    pub step: usize,
    pub detail: String,
    #[serde(default)]
    pub trace: Vec<String>,
}

#[derive(Clone, Debug, Default)]
pub struct Report {
    pub violation: Option<Violation>,
    pub nontrivial: bool,
    pub labels: Vec<String>,
    pub known: Vec<String>,
    pub inconclusive: Option<String>,
    /// number of sub-executions this case stood for (sweeps); 0 means 1
    pub executions: u64,
    /// distinct non-trivial sub-cases (hashes) for cases that expand to many executions
    pub sub_nontrivial: Vec<u64>,
}

pub struct Stage<C> {
    pub name: String,
    pub cases: u32,
    pub strategy: BoxedStrategy<C>,
}

pub trait Engine: 'static {
    const NAME: &'static str;
    type Case: Clone + Debug + Serialize + DeserializeOwned + Send + 'static;
    fn properties() -> Vec<&'static str>;
    fn level(_prop: &str) -> &'static str {
        "exploration"
    }
    fn rule(prop: &str) -> String;
    fn assumptions(prop: &str) -> Vec<String>;
    fn stages(ctx: &Ctx) -> Vec<Stage<Self::Case>>;
    fn run(ctx: &Ctx, case: &Self::Case) -> Report;
    /// extra coverage keys for the evidence file
    fn extra_coverage(_ctx: &Ctx, _labels: &BTreeMap<String, u64>) -> Value {
        Value::Null
    }
    /// whether the property promises that calls complete (a reproducible hang is then a violation,
    /// otherwise it is reported as inconclusive)
    fn hang_is_violation(_prop: &str) -> bool {
        false
    }
    /// how the case is rendered as an evidence sample
    fn sample(case: &Self::Case) -> Value {
        serde_json::to_value(case).unwrap_or(Value::Null)
    }
}

pub fn verif_root() -> PathBuf {
    PathBuf::from(std::env::var("VERIF_ROOT").unwrap_or_else(|_| "/verif".to_string()))
}

fn splitmix(x: &mut u64) -> u64 {
    *x = x.wrapping_add(0x9E3779B97F4A7C15);
    let mut z = *x;
    z = (z ^ (z >> 30)).wrapping_mul(0xBF58476D1CE4E5B9);
    z = (z ^ (z >> 27)).wrapping_mul(0x94D049BB133111EB);
    z ^ (z >> 31)
}

pub fn seed_bytes(seed: u64, prop: &str, stage: &str, shard: u32) -> [u8; 32] {
    let mut h = std::collections::hash_map::DefaultHasher::new();
    seed.hash(&mut h);
    prop.hash(&mut h);
    stage.hash(&mut h);
    shard.hash(&mut h);
    let mut x = h.finish();
    let mut out = [0u8; 32];
    for i in 0..4 {
        out[i * 8..i * 8 + 8].copy_from_slice(&splitmix(&mut x).to_le_bytes());
    }
    out
}

pub fn hash_json<T: Serialize>(v: &T) -> u64 {
    let s = serde_json::to_string(v).unwrap_or_default();
    let mut h = std::collections::hash_map::DefaultHasher::new();
    s.hash(&mut h);
    h.finish()
}

#[derive(Default)]
struct Stats {
    cases: u64,
    executions: u64,
    nontrivial: HashSet<u64>,
    labels: BTreeMap<String, u64>,
    known: BTreeMap<String, u64>,
    samples_nt: Vec<Value>,
    samples_tr: Vec<Value>,
    per_stage: BTreeMap<String, u64>,
}

impl Stats {
    fn merge(&mut self, o: Stats) {
        self.cases += o.cases;
        self.executions += o.executions;
        self.nontrivial.extend(o.nontrivial);
        for (k, v) in o.labels {
            *self.labels.entry(k).or_default() += v;
        }
        for (k, v) in o.known {
            *self.known.entry(k).or_default() += v;
        }
        for (k, v) in o.per_stage {
            *self.per_stage.entry(k).or_default() += v;
        }
        for s in o.samples_nt {
            if self.samples_nt.len() < 4 {
                self.samples_nt.push(s);
            }
        }
        for s in o.samples_tr {
            if self.samples_tr.len() < 1 {
                self.samples_tr.push(s);
            }
        }
    }
}

struct Failure<C> {
    case: C,
    violation: Violation,
    stage: String,
    shard: u32,
}

#[derive(Deserialize, Default)]
struct KnownFile {
    #[serde(default)]
    findings: Vec<KnownEntry>,
}

#[derive(Deserialize, Clone)]
struct KnownEntry {
    property: String,
    id: String,
    #[serde(default)]
    call_site: String,
    #[serde(default)]
    condition: String,
}

fn load_known(prop: &str) -> Vec<KnownEntry> {
    let p = verif_root().join("known_findings.json");
    let Ok(s) = std::fs::read_to_string(p) else {
        return vec![];
    };
    let kf: KnownFile = serde_json::from_str(&s).unwrap_or_default();
    kf.findings
        .into_iter()
        .filter(|e| e.property == prop)
        .collect()
}

fn usage<E: Engine>() -> ! {
    eprintln!(
        "usage: {} --property <id> --tier quick|thorough [--seed N]\n       {} replay <file>",
        E::NAME,
        E::NAME
    );
    std::process::exit(2)
}

#[derive(Serialize, Deserialize)]
struct ReplayFile {
    engine: String,
    property: String,
    #[serde(default)]
    seed: u64,
    #[serde(default)]
    stage: String,
    case: Value,
    #[serde(default)]
    violation: Option<Violation>,
}

/// Entry point of every engine binary.
pub fn main_for<E: Engine>() -> ! {
    crate::sched::install_quiet_panic_hook();
    let args: Vec<String> = std::env::args().skip(1).collect();
    if args.first().map(|s| s.as_str()) == Some("replay") {
        let Some(path) = args.get(1) else { usage::<E>() };
        std::process::exit(replay::<E>(path));
    }
    let mut prop = None;
    let mut tier = Tier::Quick;
    let mut seed: u64 = std::env::var("VERIF_SEED")
        .ok()
        .and_then(|s| s.parse::<i64>().ok())
        .map(|v| v as u64)
        .unwrap_or(0);
    let mut i = 0;
    while i < args.len() {
        match args[i].as_str() {
            "--property" => {
                prop = args.get(i + 1).cloned();
                i += 2;
            }
            "--tier" => {
                tier = match args.get(i + 1).map(|s| s.as_str()) {
                    Some("quick") => Tier::Quick,
                    Some("thorough") => Tier::Thorough,
                    _ => usage::<E>(),
                };
                i += 2;
            }
            "--seed" => {
                seed = args
                    .get(i + 1)
                    .and_then(|s| s.parse::<i64>().ok())
                    .map(|v| v as u64)
                    .unwrap_or_else(|| usage::<E>());
                i += 2;
            }
            _ => usage::<E>(),
        }
    }
    let Some(prop) = prop else { usage::<E>() };
    if !E::properties().contains(&prop.as_str()) {
        eprintln!("engine {} does not serve property {}", E::NAME, prop);
        std::process::exit(2);
    }
    std::process::exit(check::<E>(&prop, tier, seed));
}

fn replay<E: Engine>(path: &str) -> i32 {
    let s = match std::fs::read_to_string(path) {
        Ok(s) => s,
        Err(e) => {
            eprintln!("cannot read {}: {}", path, e);
            return 2;
        }
    };
    let rf: ReplayFile = match serde_json::from_str(&s) {
        Ok(r) => r,
        Err(e) => {
            eprintln!("cannot parse {}: {}", path, e);
            return 2;
        }
    };
    let case: E::Case = match serde_json::from_value(rf.case) {
        Ok(c) => c,
        Err(e) => {
            eprintln!("cannot decode case in {}: {}", path, e);
            return 2;
        }
    };
    let known = load_known(&rf.property);
    let ctx = Ctx {
        prop: rf.property.clone(),
        tier: Tier::Quick,
        seed: rf.seed,
        known: known.iter().map(|k| k.id.clone()).collect(),
        replay: true,
    };
    if std::env::var_os("VERIF_HANG_CHILD").is_none() {
        // a replay that hangs reports it instead of waiting forever
        let (prop, path2, viol) = (rf.property.clone(), path.to_string(), E::hang_is_violation(&rf.property));
        let limit: u64 = std::env::var("VERIF_HANG_S").ok().and_then(|s| s.parse().ok()).unwrap_or(60);
        std::thread::spawn(move || {
            std::thread::sleep(std::time::Duration::from_secs(limit));
            if viol {
                println!("oracle: hang\ndetail: the replayed case did not finish within {} s", limit);
                println!("VIOLATION property={} replay={}", prop, path2);
                std::process::exit(1);
            }
            println!("INCONCLUSIVE: the replayed case did not finish within {} s", limit);
            std::process::exit(2);
        });
    }
    let rep = E::run(&ctx, &case);
    for k in &rep.known {
        println!("KNOWN-FINDING: property={} {}", rf.property, k);
    }
    if let Some(why) = rep.inconclusive {
        println!("INCONCLUSIVE: {}", why);
        return 2;
    }
    match rep.violation {
        Some(v) => {
            println!("oracle: {}\nstep: {}\ndetail: {}", v.oracle, v.step, v.detail);
            for t in &v.trace {
                println!("  {}", t);
            }
            println!("VIOLATION property={} replay={}", rf.property, path);
            1
        }
        None => {
            println!("replay of {}: property {} held", path, rf.property);
            0
        }
    }
}

fn write_replay<E: Engine>(ctx: &Ctx, f: &Failure<E::Case>) -> PathBuf {
    let dir = verif_root().join("replays");
    let _ = std::fs::create_dir_all(&dir);
    let h = hash_json(&f.case);
    let path = dir.join(format!("{}-{:016x}.json", ctx.prop, h));
    let rf = ReplayFile {
        engine: E::NAME.to_string(),
        property: ctx.prop.clone(),
        seed: ctx.seed,
        stage: format!("{}#{}", f.stage, f.shard),
        case: serde_json::to_value(&f.case).unwrap_or(Value::Null),
        violation: Some(f.violation.clone()),
    };
    let _ = std::fs::write(&path, serde_json::to_string_pretty(&rf).unwrap_or_default());
    path
}

/// cases finished so far (all shards); watched by the hang watchdog
static PROGRESS: std::sync::atomic::AtomicU64 = std::sync::atomic::AtomicU64::new(0);

/// the case every shard is executing right now (serialised on demand by the hang watchdog)
type CaseDump = Box<dyn Fn() -> Value + Send>;
static CURRENT: Mutex<Vec<Option<(Instant, CaseDump)>>> = Mutex::new(Vec::new());

fn set_current(shard: usize, dump: Option<CaseDump>) {
    let mut c = CURRENT.lock().unwrap_or_else(|e| e.into_inner());
    if c.len() <= shard {
        c.resize_with(shard + 1, || None);
    }
    c[shard] = dump.map(|d| (Instant::now(), d));
}

static ABORT_CTX: std::sync::OnceLock<(&'static str, String, u64)> = std::sync::OnceLock::new();

/// SIGABRT (double panic, stack overflow, abort() inside the tested code): the process is
/// about to die without a replay file. Dump what every shard was executing as candidate
/// replay files; `run` re-executes each in a child process to find the one that aborts.
extern "C" fn on_abort(_sig: libc::c_int) {
    let Some((engine, prop, seed)) = ABORT_CTX.get() else { return };
    let Ok(c) = CURRENT.try_lock() else { return };
    let dir = verif_root().join("replays");
    let _ = std::fs::create_dir_all(&dir);
    for (shard, cur) in c.iter().enumerate() {
        let Some((_, dump)) = cur else { continue };
        let case = dump();
        let path = dir.join(format!("{}-abort-{}.json", prop, shard));
        let rf = ReplayFile {
            engine: engine.to_string(),
            property: prop.clone(),
            seed: *seed,
            stage: format!("abort#{}", shard),
            case,
            violation: Some(Violation {
                oracle: "process-aborted".into(),
                step: 0,
                detail: "the checker process was aborted (SIGABRT) while this case was running".into(),
                trace: vec![],
            }),
        };
        let _ = std::fs::write(&path, serde_json::to_string_pretty(&rf).unwrap_or_default());
    }
    // SA_RESETHAND: abort() re-raises with the default action after we return
}

fn install_abort_dump(engine: &'static str, prop: String, seed: u64) {
    let _ = ABORT_CTX.set((engine, prop, seed));
    unsafe {
        let mut sa: libc::sigaction = std::mem::zeroed();
        sa.sa_sigaction = on_abort as extern "C" fn(libc::c_int) as usize;
        sa.sa_flags = libc::SA_RESETHAND;
        libc::sigemptyset(&mut sa.sa_mask);
        libc::sigaction(libc::SIGABRT, &sa, std::ptr::null_mut());
    }
}

/// A pool operation that never returns while running inline cannot be interrupted. If no case
/// finishes for `VERIF_HANG_S` seconds (default 120) the case that has been running longest is
/// written out and re-executed in a child process. If it hangs there too and the property
/// promises that calls complete, that is a violation; in every other case the run is
/// inconclusive (exit 2).
fn start_hang_watchdog(engine: &'static str, prop: String, seed: u64, hang_is_violation: bool) {
    let limit: u64 = std::env::var("VERIF_HANG_S").ok().and_then(|s| s.parse().ok()).unwrap_or(120);
    std::thread::spawn(move || {
        let mut last = PROGRESS.load(Ordering::Relaxed);
        let mut since = Instant::now();
        loop {
            std::thread::sleep(std::time::Duration::from_secs(2));
            let now = PROGRESS.load(Ordering::Relaxed);
            if now != last {
                last = now;
                since = Instant::now();
                continue;
            }
            if since.elapsed().as_secs() < limit {
                continue;
            }
            // which case hangs?
            let case: Option<Value> = {
                let c = CURRENT.lock().unwrap_or_else(|e| e.into_inner());
                c.iter().flatten().min_by_key(|(t, _)| *t).map(|(_, d)| d())
            };
            let Some(case) = case else {
                println!("INCONCLUSIVE: no case of {} finished for {} s; no evidence written", prop, limit);
                std::process::exit(2);
            };
            let dir = verif_root().join("replays");
            let _ = std::fs::create_dir_all(&dir);
            let path = dir.join(format!("{}-hang-{:016x}.json", prop, hash_json(&case)));
            let rf = ReplayFile {
                engine: engine.to_string(),
                property: prop.clone(),
                seed,
                stage: "hang-watchdog".into(),
                case,
                violation: Some(Violation {
                    oracle: "hang".into(),
                    step: 0,
                    detail: format!("the case did not finish within {} s", limit),
                    trace: vec![],
                }),
            };
            let _ = std::fs::write(&path, serde_json::to_string_pretty(&rf).unwrap_or_default());
            // does it hang again, alone, in a fresh process?
            let again = std::env::current_exe().ok().and_then(|exe| {
                std::process::Command::new(exe)
                    .arg("replay")
                    .arg(&path)
                    .env("VERIF_HANG_CHILD", "1")
                    .stdout(std::process::Stdio::null())
                    .stderr(std::process::Stdio::null())
                    .spawn()
                    .ok()
            });
            let mut reproduced = false;
            if let Some(mut child) = again {
                let t0 = Instant::now();
                loop {
                    match child.try_wait() {
                        Ok(Some(_)) => break,
                        Ok(None) if t0.elapsed().as_secs() >= 60 => {
                            let _ = child.kill();
                            reproduced = true;
                            break;
                        }
                        Ok(None) => std::thread::sleep(std::time::Duration::from_millis(200)),
                        Err(_) => break,
                    }
                }
            }
            if reproduced && hang_is_violation {
                println!("oracle: hang\nstep: 0\ndetail: a pool call in this case never returns (no case finished for {} s, and the case hangs again when replayed alone)", limit);
                println!("VIOLATION property={} replay={}", prop, path.display());
                std::process::exit(1);
            }
            println!(
                "INCONCLUSIVE: no case of {} finished for {} s (an operation hangs{}); case written to {}; no evidence written",
                prop,
                limit,
                if reproduced { ", reproducibly" } else { ", not reproducibly" },
                path.display()
            );
            std::process::exit(2);
        }
    });
}

fn check<E: Engine>(prop: &str, tier: Tier, seed: u64) -> i32 {
    let t0 = Instant::now();
    start_hang_watchdog(E::NAME, prop.to_string(), seed, E::hang_is_violation(prop));
    install_abort_dump(E::NAME, prop.to_string(), seed);
    let known_entries = load_known(prop);
    let ctx = Ctx {
        prop: prop.to_string(),
        tier,
        seed,
        known: known_entries.iter().map(|k| k.id.clone()).collect(),
        replay: false,
    };
    let shards: u32 = std::env::var("VERIF_SHARDS")
        .ok()
        .and_then(|s| s.parse().ok())
        .unwrap_or(16);

    let mut total = Stats::default();
    let mut failure: Option<(Failure<E::Case>, PathBuf)> = None;
    let mut inconclusive: Option<String> = None;
    let mut regress_run = 0u64;

    // 1. regress files
    let rdir = verif_root().join("regress").join(prop);
    let mut rfiles: Vec<PathBuf> = std::fs::read_dir(&rdir)
        .map(|d| d.filter_map(|e| e.ok().map(|e| e.path())).collect())
        .unwrap_or_default();
    rfiles.sort();
    for p in rfiles {
        if p.extension().and_then(|e| e.to_str()) != Some("json") {
            continue;
        }
        let Ok(s) = std::fs::read_to_string(&p) else { continue };
        let Ok(rf) = serde_json::from_str::<ReplayFile>(&s) else {
            eprintln!("warning: unreadable regress file {}", p.display());
            continue;
        };
        if rf.engine != E::NAME {
            continue;
        }
        let Ok(case) = serde_json::from_value::<E::Case>(rf.case) else {
            eprintln!("warning: undecodable regress case {}", p.display());
            continue;
        };
        {
            // visible to the hang watchdog and the abort handler like a generated case
            let c2 = case.clone();
            set_current(0, Some(Box::new(move || serde_json::to_value(&c2).unwrap_or(Value::Null))));
        }
        let rep = E::run(&ctx, &case);
        set_current(0, None);
        PROGRESS.fetch_add(1, Ordering::Relaxed);
        regress_run += 1;
        total.cases += 1;
        total.executions += rep.executions.max(1);
        *total.per_stage.entry("regress".into()).or_default() += 1;
        for k in rep.known {
            *total.known.entry(k).or_default() += 1;
        }
        for l in rep.labels {
            *total.labels.entry(l).or_default() += 1;
        }
        if rep.nontrivial {
            total.nontrivial.insert(hash_json(&case));
        }
        if let Some(w) = rep.inconclusive {
            inconclusive = Some(w);
        }
        if let Some(v) = rep.violation {
            failure = Some((
                Failure {
                    case,
                    violation: v,
                    stage: "regress".into(),
                    shard: 0,
                },
                p.clone(),
            ));
            break;
        }
    }

    // 2. generated stages
    if failure.is_none() && inconclusive.is_none() {
        let stage_names: Vec<(String, u32)> = E::stages(&ctx)
            .into_iter()
            .map(|s| (s.name, s.cases))
            .collect();
        for (si, (sname, scases)) in stage_names.iter().enumerate() {
            let stop = Arc::new(AtomicBool::new(false));
            let results: Arc<Mutex<Vec<(Stats, Option<Failure<E::Case>>, Option<String>)>>> =
                Arc::new(Mutex::new(Vec::new()));
            let nshards = shards.min((*scases).max(1));
            let per = (*scases + nshards - 1) / nshards;
            let mut handles = Vec::new();
            for shard in 0..nshards {
                let ctx = ctx.clone();
                let stop = stop.clone();
                let results = results.clone();
                let sname = sname.clone();
                handles.push(
                    std::thread::Builder::new()
                        .name(format!("shard{}", shard))
                        .stack_size(8 * 1024 * 1024)
                        .spawn(move || {
                            let r = run_shard::<E>(&ctx, si, &sname, shard, per, &stop);
                            results.lock().unwrap().push(r);
                        })
                        .expect("spawn shard"),
                );
            }
            for h in handles {
                let _ = h.join();
            }
            let mut rs = std::mem::take(&mut *results.lock().unwrap());
            rs.sort_by_key(|r| r.1.as_ref().map(|f| f.shard).unwrap_or(u32::MAX));
            for (st, f, inc) in rs {
                total.merge(st);
                if let Some(w) = inc {
                    inconclusive.get_or_insert(w);
                }
                if let Some(f) = f {
                    if failure.is_none() {
                        let p = write_replay::<E>(&ctx, &f);
                        failure = Some((f, p));
                    }
                }
            }
            if failure.is_some() || inconclusive.is_some() {
                break;
            }
        }
    }

    // 3. evidence
    let wall = t0.elapsed().as_secs_f64();
    let mut samples: Vec<Value> = Vec::new();
    samples.extend(total.samples_nt.iter().cloned());
    samples.extend(total.samples_tr.iter().cloned());
    if let Some((f, _)) = &failure {
        samples.insert(0, json!({"failing_case": E::sample(&f.case), "violation": f.violation}));
    }
    let mut coverage = json!({
        "evaluations": total.executions.max(total.cases),
        "generated_cases": total.cases,
        "regress_cases": regress_run,
        "cases_per_stage": total.per_stage,
        "distinct_nontrivial": total.nontrivial.len(),
        "rule": E::rule(prop),
        "samples": samples,
        "labels": total.labels,
        "known_findings_matched": total.known,
        "shards": shards,
    });
    if let Value::Object(extra) = E::extra_coverage(&ctx, &total.labels) {
        for (k, v) in extra {
            coverage[k] = v;
        }
    }
    let ev = json!({
        "property_id": prop,
        "tier": tier.name(),
        "seed": seed as i64,
        "level": E::level(prop),
        "engine": E::NAME,
        "coverage": coverage,
        "assumptions": E::assumptions(prop),
        "wall_s": wall,
        "violations": if failure.is_some() { 1 } else { 0 },
        "inconclusive": inconclusive,
    });
    let edir = verif_root().join("evidence");
    let _ = std::fs::create_dir_all(&edir);
    let epath = edir.join(format!("{}.json", prop));
    if let Err(e) = std::fs::write(&epath, serde_json::to_string_pretty(&ev).unwrap_or_default()) {
        eprintln!("cannot write evidence {}: {}", epath.display(), e);
    }

    // 4. report
    println!(
        "{} {} {} seed={} cases={} executions={} distinct_nontrivial={} wall={:.1}s",
        E::NAME,
        prop,
        tier.name(),
        seed,
        total.cases,
        total.executions.max(total.cases),
        total.nontrivial.len(),
        wall
    );
    if std::env::var_os("VERIF_LABELS").is_some() {
        for (k, v) in &total.labels {
            println!("  label {:40} {}", k, v);
        }
    }
    for k in &known_entries {
        if let Some(n) = total.known.get(&k.id) {
            println!(
                "KNOWN-FINDING: property={} {} {} [{}] matched in {} cases",
                prop, k.id, k.condition, k.call_site, n
            );
        }
    }
    if let Some((f, path)) = failure {
        println!(
            "oracle: {}\nstep: {}\ndetail: {}",
            f.violation.oracle, f.violation.step, f.violation.detail
        );
        for t in f.violation.trace.iter().rev().take(60).rev() {
            println!("  {}", t);
        }
        println!("VIOLATION property={} replay={}", prop, path.display());
        return 1;
    }
    if let Some(w) = inconclusive {
        println!("INCONCLUSIVE: {}", w);
        return 2;
    }
    0
}

fn run_shard<E: Engine>(
    ctx: &Ctx,
    _stage_index: usize,
    stage_name: &str,
    shard: u32,
    cases: u32,
    stop: &Arc<AtomicBool>,
) -> (Stats, Option<Failure<E::Case>>, Option<String>) {
    // the strategy is rebuilt per shard (BoxedStrategy is not Send)
    let stage = E::stages(ctx)
        .into_iter()
        .find(|s| s.name == stage_name)
        .expect("stage");
    let config = Config {
        cases,
        failure_persistence: None,
        max_shrink_iters: if ctx.tier == Tier::Quick { 1500 } else { 4000 },
        max_shrink_time: 180_000, // ms: failures that take seconds each (hangs caught by a timeout) must not shrink for hours
        max_global_rejects: 65536,
        verbose: 0,
        ..Config::default()
    };
    let rng = TestRng::from_seed(
        RngAlgorithm::ChaCha,
        &seed_bytes(ctx.seed, &ctx.prop, stage_name, shard),
    );
    let mut runner = TestRunner::new_with_rng(config, rng);
    let stats = std::cell::RefCell::new(Stats::default());
    let failed = std::cell::Cell::new(false);
    let incon: std::cell::RefCell<Option<String>> = std::cell::RefCell::new(None);
    let strategy = stage.strategy;
    // the first failing case as it was observed (kept in case the shrunk one does not reproduce)
    let first: std::cell::RefCell<Option<(E::Case, Violation)>> = std::cell::RefCell::new(None);
    let result = runner.run(&strategy, |case| {
        if !failed.get() && (stop.load(Ordering::Relaxed) || incon.borrow().is_some()) {
            return Ok(());
        }
        {
            let c2 = case.clone();
            set_current(shard as usize, Some(Box::new(move || serde_json::to_value(&c2).unwrap_or(Value::Null))));
        }
        let rep = E::run(ctx, &case);
        set_current(shard as usize, None);
        PROGRESS.fetch_add(1, Ordering::Relaxed);
        if !failed.get() {
            let mut st = stats.borrow_mut();
            st.cases += 1;
            st.executions += rep.executions.max(1);
            *st.per_stage.entry(stage_name.to_string()).or_default() += 1;
            for l in &rep.labels {
                *st.labels.entry(l.clone()).or_default() += 1;
            }
            for k in &rep.known {
                *st.known.entry(k.clone()).or_default() += 1;
            }
            if rep.nontrivial {
                st.nontrivial.insert(hash_json(&case));
                if st.samples_nt.len() < 2 {
                    st.samples_nt.push(E::sample(&case));
                }
            } else if st.samples_tr.is_empty() {
                st.samples_tr.push(E::sample(&case));
            }
            for h in &rep.sub_nontrivial {
                st.nontrivial.insert(*h);
            }
        }
        if let Some(w) = rep.inconclusive {
            if !failed.get() {
                // an operation on a worker thread neither finished nor parked: if the property
                // promises that calls complete and the case does it again, that is a violation
                if E::hang_is_violation(&ctx.prop) && w.starts_with("watchdog") {
                    let again = E::run(ctx, &case);
                    if again.inconclusive.as_deref().map(|a| a.starts_with("watchdog")).unwrap_or(false) {
                        let v = Violation {
                            oracle: "hang".into(),
                            step: 0,
                            detail: format!("reproducible: {}", w),
                            trace: vec![],
                        };
                        *first.borrow_mut() = Some((case.clone(), v));
                        failed.set(true);
                        stop.store(true, Ordering::Relaxed);
                        return Err(TestCaseError::fail("hang"));
                    }
                }
                // keep the case for inspection, then try it once more: a verdict that needs a
                // timeout can be missed once on a saturated machine
                let dir = verif_root().join("replays");
                let _ = std::fs::create_dir_all(&dir);
                let path = dir.join(format!("{}-inconclusive-{:016x}.json", ctx.prop, hash_json(&case)));
                let rf = ReplayFile {
                    engine: E::NAME.to_string(),
                    property: ctx.prop.clone(),
                    seed: ctx.seed,
                    stage: format!("{}#{}", stage_name, shard),
                    case: serde_json::to_value(&case).unwrap_or(Value::Null),
                    violation: None,
                };
                let _ = std::fs::write(&path, serde_json::to_string_pretty(&rf).unwrap_or_default());
                let again = E::run(ctx, &case);
                match (again.inconclusive, again.violation) {
                    (None, None) => {
                        // not reproducible: go on
                        let mut st = stats.borrow_mut();
                        *st.labels.entry("inconclusive-once-then-fine".into()).or_default() += 1;
                        let _ = std::fs::remove_file(&path);
                    }
                    (None, Some(v)) => {
                        *first.borrow_mut() = Some((case.clone(), v.clone()));
                        failed.set(true);
                        stop.store(true, Ordering::Relaxed);
                        return Err(TestCaseError::fail(v.oracle));
                    }
                    (Some(w2), _) => {
                        *incon.borrow_mut() = Some(format!("{} (again on a second execution: {}; case kept in {})", w, w2, path.display()));
                        stop.store(true, Ordering::Relaxed);
                    }
                }
            }
            return Ok(());
        }
        match rep.violation {
            Some(v) => {
                if first.borrow().is_none() {
                    *first.borrow_mut() = Some((case.clone(), v.clone()));
                }
                failed.set(true);
                stop.store(true, Ordering::Relaxed);
                Err(TestCaseError::fail(v.oracle))
            }
            None => Ok(()),
        }
    });
    let failure = match result {
        Ok(()) => None,
        Err(TestError::Fail(_, case)) => {
            let rep = E::run(ctx, &case);
            match (rep.violation, first.into_inner()) {
                (Some(violation), _) => Some(Failure {
                    case,
                    violation,
                    stage: stage_name.to_string(),
                    shard,
                }),
                // the shrunk case depends on real thread timing and did not fail again:
                // report the case as it was first observed, with what was observed
                (None, Some((orig, mut violation))) => {
                    violation.detail = format!("{} [observed on the unshrunk case; the shrunk case did not reproduce it]", violation.detail);
                    Some(Failure {
                        case: orig,
                        violation,
                        stage: stage_name.to_string(),
                        shard,
                    })
                }
                (None, None) => Some(Failure {
                    case,
                    violation: Violation {
                        oracle: "unstable".into(),
                        step: 0,
                        detail: "the failing case did not fail when re-run (non-deterministic check)".into(),
                        trace: vec![],
                    },
                    stage: stage_name.to_string(),
                    shard,
                }),
            }
        }
        Err(TestError::Abort(why)) => {
            *incon.borrow_mut() = Some(format!("proptest aborted: {}", why));
            None
        }
    };
    (stats.into_inner(), failure, incon.into_inner())
}

/// Helper for engines: boxed strategy from any strategy.
pub fn boxed<S: Strategy + 'static>(s: S) -> BoxedStrategy<S::Value> {
    s.boxed()
}
