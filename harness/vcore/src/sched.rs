//! Schedule-owning execution of operations.
//!
//! Exactly one operation runs at any moment. An operation either runs inline on
//! the driver thread, or on a worker thread that parks at the k-th
//! `deadpool::verif::point` it passes. While a worker is parked the driver runs
//! other operations; `resume` lets the parked one continue (optionally to
//! another park). Because only one thread runs at a time and every choice is
//! made by the caller, an execution is a deterministic function of the case.

use std::any::Any;
use std::cell::Cell;
use std::panic::{catch_unwind, AssertUnwindSafe};
use std::sync::mpsc::{channel, Receiver, RecvTimeoutError, Sender};
use std::sync::{Arc, Mutex, Once};
use std::time::Duration;

thread_local! {
    static CUR_OP: Cell<u32> = const { Cell::new(0) };
    static LAST_PANIC: Cell<Option<String>> = const { Cell::new(None) };
}

/// Operation id of the operation running on this thread (0 = none).
pub fn current_op() -> u32 {
    CUR_OP.with(|c| c.get())
}

pub fn set_current_op(op: u32) -> u32 {
    CUR_OP.with(|c| c.replace(op))
}

/// Payload type of panics injected by the harness itself.
#[derive(Debug, Clone, Copy)]
pub struct Injected;

/// What a caught panic was.
#[derive(Debug, Clone, PartialEq, Eq)]
pub enum PanicKind {
    Injected,
    Foreign(String),
}

pub fn classify_panic(payload: Box<dyn Any + Send>) -> PanicKind {
    if payload.downcast_ref::<Injected>().is_some() {
        return PanicKind::Injected;
    }
    let msg = if let Some(s) = payload.downcast_ref::<&'static str>() {
        s.to_string()
    } else if let Some(s) = payload.downcast_ref::<String>() {
        s.clone()
    } else {
        "<non-string panic payload>".to_string()
    };
    let loc = LAST_PANIC.with(|l| l.take());
    match loc {
        Some(l) => PanicKind::Foreign(format!("{} @ {}", msg, l)),
        None => PanicKind::Foreign(msg),
    }
}

static PANIC_HOOK: Once = Once::new();
static QUIET_ALL: std::sync::atomic::AtomicBool = std::sync::atomic::AtomicBool::new(false);

/// Engines whose cases make library threads panic on purpose (poisoned mutexes on
/// blocking threads) silence every panic message.
pub fn quiet_all_panics() {
    QUIET_ALL.store(true, std::sync::atomic::Ordering::Relaxed);
}

/// Installs a process wide panic hook that stays silent (unless VERIF_VERBOSE is
/// set) and remembers the panic location for `classify_panic`.
pub fn install_quiet_panic_hook() {
    PANIC_HOOK.call_once(|| {
        let verbose = std::env::var_os("VERIF_VERBOSE").is_some();
        let prev = std::panic::take_hook();
        std::panic::set_hook(Box::new(move |info| {
            let loc = info
                .location()
                .map(|l| format!("{}:{}", l.file(), l.line()))
                .unwrap_or_default();
            LAST_PANIC.with(|l| l.set(Some(loc)));
            let in_op = CUR_OP.with(|c| c.get()) != 0 || QUIET_ALL.load(std::sync::atomic::Ordering::Relaxed);
            if (verbose || !in_op) && info.payload().downcast_ref::<Injected>().is_none() {
                prev(info);
            }
        }));
    });
}

pub type PointSink = Arc<dyn Fn(u32, &'static str) + Send + Sync>;
pub type OpResult = Result<Box<dyn Any + Send>, PanicKind>;

enum Msg {
    Parked { worker: usize, label: &'static str },
    Done { worker: usize, result: OpResult },
}

/// Outcome of starting or resuming an operation.
pub enum Run {
    /// The operation is parked at the named schedule point.
    Parked { worker: usize, label: &'static str },
    /// The operation ran to completion.
    Done(OpResult),
}

#[derive(Debug)]
pub struct Watchdog;

struct Worker {
    op: u32,
    resume: Sender<Option<u32>>,
    label: &'static str,
    handle: Option<std::thread::JoinHandle<()>>,
}

pub struct Sched {
    tx: Sender<Msg>,
    rx: Receiver<Msg>,
    workers: Vec<Option<Worker>>,
    sink: PointSink,
    watchdog: Duration,
    pub thread_ops: u64,
}

impl Sched {
    pub fn new(sink: PointSink) -> Self {
        let (tx, rx) = channel();
        Sched {
            tx,
            rx,
            workers: Vec::new(),
            sink,
            watchdog: Duration::from_secs(60),
            thread_ops: 0,
        }
    }

    /// Runs `f` on the driver thread; schedule points are reported, never parked at.
    pub fn run_inline<R>(&mut self, op: u32, f: impl FnOnce() -> R) -> Result<R, PanicKind> {
        let sink = self.sink.clone();
        let prev_hook =
            deadpool::verif::set_hook(Some(Box::new(move |label| (sink)(op, label))));
        let prev_op = set_current_op(op);
        let r = catch_unwind(AssertUnwindSafe(f));
        set_current_op(prev_op);
        let _ = deadpool::verif::set_hook(prev_hook);
        r.map_err(classify_panic)
    }

    /// Runs `f` on a fresh worker thread that parks at the `pause_at`-th schedule
    /// point it passes (0 = the first one).
    pub fn spawn(
        &mut self,
        op: u32,
        pause_at: u32,
        f: Box<dyn FnOnce() -> Box<dyn Any + Send> + Send>,
    ) -> Result<Run, Watchdog> {
        let worker = self.workers.len();
        let (rtx, rrx) = channel::<Option<u32>>();
        let tx = self.tx.clone();
        let sink = self.sink.clone();
        self.thread_ops += 1;
        let handle = std::thread::Builder::new()
            .stack_size(512 * 1024)
            .spawn(move || {
                let tx2 = tx.clone();
                let mut remaining = Some(pause_at);
                let _ = deadpool::verif::set_hook(Some(Box::new(move |label| {
                    (sink)(op, label);
                    match remaining {
                        Some(0) => {
                            let _ = tx2.send(Msg::Parked { worker, label });
                            remaining = rrx.recv().unwrap_or(None);
                        }
                        Some(n) => remaining = Some(n - 1),
                        None => {}
                    }
                })));
                set_current_op(op);
                let r = catch_unwind(AssertUnwindSafe(f));
                let _ = deadpool::verif::set_hook(None);
                let result = r.map_err(classify_panic);
                let _ = tx.send(Msg::Done { worker, result });
            })
            .expect("spawn worker");
        self.workers.push(Some(Worker {
            op,
            resume: rtx,
            label: "",
            handle: Some(handle),
        }));
        self.wait(worker)
    }

    fn wait(&mut self, worker: usize) -> Result<Run, Watchdog> {
        match self.rx.recv_timeout(self.watchdog) {
            Ok(Msg::Parked { worker: w, label }) => {
                debug_assert_eq!(w, worker);
                if let Some(wk) = self.workers[w].as_mut() {
                    wk.label = label;
                }
                Ok(Run::Parked { worker: w, label })
            }
            Ok(Msg::Done { worker: w, result }) => {
                debug_assert_eq!(w, worker);
                if let Some(mut wk) = self.workers[w].take() {
                    if let Some(h) = wk.handle.take() {
                        let _ = h.join();
                    }
                }
                Ok(Run::Done(result))
            }
            Err(RecvTimeoutError::Timeout) | Err(RecvTimeoutError::Disconnected) => Err(Watchdog),
        }
    }

    /// Lets parked worker `worker` continue; it parks again at the `pause_at`-th
    /// further schedule point if given.
    pub fn resume(&mut self, worker: usize, pause_at: Option<u32>) -> Result<Run, Watchdog> {
        let wk = self.workers[worker].as_ref().expect("resume of finished worker");
        wk.resume.send(pause_at).map_err(|_| Watchdog)?;
        self.wait(worker)
    }

    pub fn parked(&self) -> Vec<usize> {
        self.workers
            .iter()
            .enumerate()
            .filter_map(|(i, w)| w.as_ref().map(|_| i))
            .collect()
    }

    pub fn parked_label(&self, worker: usize) -> &'static str {
        self.workers[worker].as_ref().map(|w| w.label).unwrap_or("")
    }

    pub fn parked_op(&self, worker: usize) -> u32 {
        self.workers[worker].as_ref().map(|w| w.op).unwrap_or(0)
    }

    pub fn n_parked(&self) -> usize {
        self.workers.iter().filter(|w| w.is_some()).count()
    }
}

/// A waker that sets a flag and counts wake-ups.
pub struct WakeFlag {
    pub woken: std::sync::atomic::AtomicBool,
    pub count: std::sync::atomic::AtomicU32,
}

impl WakeFlag {
    pub fn new() -> Arc<Self> {
        Arc::new(WakeFlag {
            woken: std::sync::atomic::AtomicBool::new(false),
            count: std::sync::atomic::AtomicU32::new(0),
        })
    }
    pub fn take(&self) -> bool {
        self.woken.swap(false, std::sync::atomic::Ordering::SeqCst)
    }
    pub fn is_set(&self) -> bool {
        self.woken.load(std::sync::atomic::Ordering::SeqCst)
    }
}

impl std::task::Wake for WakeFlag {
    fn wake(self: Arc<Self>) {
        self.wake_by_ref();
    }
    fn wake_by_ref(self: &Arc<Self>) {
        self.woken.store(true, std::sync::atomic::Ordering::SeqCst);
        self.count.fetch_add(1, std::sync::atomic::Ordering::SeqCst);
    }
}

/// Shared mutex helper that ignores poisoning (harness state is never left
/// inconsistent by an injected panic).
pub fn lock<T>(m: &Mutex<T>) -> std::sync::MutexGuard<'_, T> {
    m.lock().unwrap_or_else(|e| e.into_inner())
}
