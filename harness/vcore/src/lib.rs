//! Shared core of the deadpool verification harness: schedule-owning execution
//! (`sched`) and the sharded proptest driver with replay and evidence (`drive`).
pub mod drive;
pub mod sched;

pub use drive::{main_for, Ctx, Engine, Report, Stage, Tier, Violation};

/// Monotone mapping of a generated index onto `0..len` (stable under shrinking).
pub fn pick(i: u8, len: usize) -> Option<usize> {
    if len == 0 {
        None
    } else {
        Some(((i as usize) * len) >> 8)
    }
}
