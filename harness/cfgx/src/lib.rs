//! E7: configuration generators with reference translations. Serves C18 (postgres
//! Config) and C19 (redis configs, conversions, serialisation).

pub mod pg;
pub mod rds;

use serde::{Deserialize, Serialize};
use vcore::drive::{Ctx, Engine, Report, Stage, Tier, Violation};

#[derive(Clone, Debug, Serialize, Deserialize)]
pub enum Case {
    Pg(pg::PgCase),
    Redis(rds::RedisCase),
}

pub struct Verdict {
    pub violation: Option<(String, String)>,
    pub nontrivial: bool,
    pub labels: Vec<String>,
}

impl Verdict {
    pub fn new() -> Self {
        Verdict {
            violation: None,
            nontrivial: false,
            labels: vec![],
        }
    }
    pub fn fail(&mut self, oracle: &str, detail: String) {
        if self.violation.is_none() {
            self.violation = Some((oracle.to_string(), detail));
        }
    }
    pub fn label(&mut self, l: &str) {
        self.labels.push(l.to_string());
    }
}

pub struct Cfgx;

impl Engine for Cfgx {
    const NAME: &'static str = "cfgx";
    type Case = Case;

    fn properties() -> Vec<&'static str> {
        vec!["C18", "C19"]
    }

    fn rule(prop: &str) -> String {
        match prop {
            "C18" => "case = a deadpool_postgres::Config with every subset of its fields set (strings from ASCII / empty / spaces / quotes / %-escapes / non-ASCII pools, URLs from a grammar in URI and key=value form plus mutated and raw strings, every enum variant, pool and manager sections, runtime present or absent); distinct by hash of the case. Non-trivial: at least 3 fields set including one that also appears in the URL, or the expected result is an error".into(),
            _ => "case = one of: standalone / cluster / sentinel redis Config (url(s) x connection(s) in {none, some}, grammar and malformed URLs), a connection-description round trip in either direction, a PoolConfig / Timeouts / QueueMode serde round trip from a typed (serde_json) or string-typed (config::Environment map) source, or a listener experiment (which loopback servers a cluster / sentinel pool contacts); distinct by hash of the case. Non-trivial: credentials or a non-default db / protocol are present, or the configuration is rejected, or a duration has non-zero nanos".into(),
        }
    }

    fn assumptions(prop: &str) -> Vec<String> {
        match prop {
            "C18" => vec![
                "tokio_postgres::Config::from_str and the tokio_postgres::Config setters are the reference for how a URL or a single host string is interpreted; the check is about deadpool's translation layer".into(),
                "USER is set to a fixed value for the run; max_size <= 4096".into(),
            ],
            _ => vec![
                "redis::Client::open / IntoConnectionInfo are the reference for URL interpretation; cluster and sentinel clients are opaque, so 'exactly the named servers are used' is observed on loopback listeners".into(),
                "tls_params are excluded from round trips as documented".into(),
            ],
        }
    }

    fn stages(ctx: &Ctx) -> Vec<Stage<Case>> {
        use proptest::strategy::Strategy;
        let thorough = ctx.tier == Tier::Thorough;
        if ctx.prop == "C18" {
            vec![Stage {
                name: "pg-config".into(),
                cases: if thorough { 16 * 60000 } else { 16 * 4000 },
                strategy: pg::case().prop_map(Case::Pg).boxed(),
            }]
        } else {
            vec![
                Stage {
                    name: "redis-config".into(),
                    cases: if thorough { 16 * 100000 } else { 16 * 12000 },
                    strategy: rds::case(false).prop_map(Case::Redis).boxed(),
                },
                Stage {
                    name: "redis-listeners".into(),
                    cases: if thorough { 16 * 100 } else { 16 * 12 },
                    strategy: rds::case(true).prop_map(Case::Redis).boxed(),
                },
            ]
        }
    }

    fn run(ctx: &Ctx, case: &Case) -> Report {
        let v = match (ctx.prop.as_str(), case) {
            ("C18", Case::Pg(c)) => pg::check(c),
            ("C19", Case::Redis(c)) => rds::check(c),
            _ => Verdict::new(),
        };
        let mut labels = v.labels;
        labels.sort();
        labels.dedup();
        Report {
            violation: v.violation.map(|(oracle, detail)| Violation {
                oracle,
                step: 0,
                detail,
                trace: vec![],
            }),
            nontrivial: v.nontrivial,
            labels,
            known: vec![],
            inconclusive: None,
            executions: 1,
            sub_nontrivial: vec![],
        }
    }
}

