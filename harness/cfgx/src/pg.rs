//! C18: deadpool_postgres::Config -> tokio_postgres::Config translation.

use std::net::IpAddr;
use std::panic::{catch_unwind, AssertUnwindSafe};
use std::str::FromStr;
use std::time::Duration;

use deadpool_postgres::{
    ChannelBinding, Config, ConfigError, CreatePoolError, LoadBalanceHosts, ManagerConfig, PoolConfig, RecyclingMethod, Runtime,
    SslMode, TargetSessionAttrs, Timeouts,
};
use deadpool::managed::QueueMode;
use proptest::prelude::*;
use proptest::strategy::BoxedStrategy;
use serde::{Deserialize, Serialize};
use tokio_postgres::config::Host;
use tokio_postgres::NoTls;

use crate::Verdict;

#[derive(Clone, Debug, Serialize, Deserialize)]
pub struct PoolCase {
    pub max_size: u16,
    pub wait_ms: Option<u32>,
    pub create_ms: Option<u32>,
    pub recycle_ms: Option<u32>,
    pub lifo: bool,
}

#[derive(Clone, Debug, Serialize, Deserialize)]
pub struct PgCase {
    pub url: Option<String>,
    pub user: Option<String>,
    pub password: Option<String>,
    pub dbname: Option<String>,
    pub options: Option<String>,
    pub application_name: Option<String>,
    pub ssl_mode: Option<u8>,
    pub host: Option<String>,
    pub hosts: Option<Vec<String>>,
    pub hostaddr: Option<String>,
    pub hostaddrs: Option<Vec<String>>,
    pub port: Option<u16>,
    pub ports: Option<Vec<u16>>,
    pub connect_timeout_ms: Option<u32>,
    pub keepalives: Option<bool>,
    pub keepalives_idle_ms: Option<u32>,
    pub target_session_attrs: Option<u8>,
    pub channel_binding: Option<u8>,
    pub load_balance_hosts: Option<u8>,
    /// 0 Fast, 1 Verified, 2 Clean, 3 Custom
    pub manager: Option<u8>,
    pub pool: Option<PoolCase>,
    pub runtime: bool,
    /// call create_pool from inside a tokio runtime context (no runtime is *passed* unless `runtime`)
    #[serde(default)]
    pub in_tokio: bool,
}

fn ssl(i: u8) -> SslMode {
    match i % 3 {
        0 => SslMode::Disable,
        1 => SslMode::Prefer,
        _ => SslMode::Require,
    }
}
fn cb(i: u8) -> ChannelBinding {
    match i % 3 {
        0 => ChannelBinding::Disable,
        1 => ChannelBinding::Prefer,
        _ => ChannelBinding::Require,
    }
}
fn tsa(i: u8) -> TargetSessionAttrs {
    if i % 2 == 0 {
        TargetSessionAttrs::Any
    } else {
        TargetSessionAttrs::ReadWrite
    }
}
fn lbh(i: u8) -> LoadBalanceHosts {
    if i % 2 == 0 {
        LoadBalanceHosts::Disable
    } else {
        LoadBalanceHosts::Random
    }
}
fn method(i: u8) -> RecyclingMethod {
    match i % 4 {
        0 => RecyclingMethod::Fast,
        1 => RecyclingMethod::Verified,
        2 => RecyclingMethod::Clean,
        _ => RecyclingMethod::Custom("SELECT 4711".into()),
    }
}

impl PgCase {
    pub fn to_config(&self) -> Config {
        let ms = |m: u32| Duration::from_millis(m as u64);
        let mut c = Config::new();
        c.url = self.url.clone();
        c.user = self.user.clone();
        c.password = self.password.clone();
        c.dbname = self.dbname.clone();
        c.options = self.options.clone();
        c.application_name = self.application_name.clone();
        c.ssl_mode = self.ssl_mode.map(ssl);
        c.host = self.host.clone();
        c.hosts = self.hosts.clone();
        c.hostaddr = self.hostaddr.as_ref().and_then(|s| IpAddr::from_str(s).ok());
        c.hostaddrs = self
            .hostaddrs
            .as_ref()
            .map(|v| v.iter().filter_map(|s| IpAddr::from_str(s).ok()).collect());
        c.port = self.port;
        c.ports = self.ports.clone();
        c.connect_timeout = self.connect_timeout_ms.map(ms);
        c.keepalives = self.keepalives;
        c.keepalives_idle = self.keepalives_idle_ms.map(ms);
        c.target_session_attrs = self.target_session_attrs.map(tsa);
        c.channel_binding = self.channel_binding.map(cb);
        c.load_balance_hosts = self.load_balance_hosts.map(lbh);
        c.manager = self.manager.map(|m| ManagerConfig {
            recycling_method: method(m),
        });
        c.pool = self.pool.as_ref().map(|p| PoolConfig {
            max_size: p.max_size as usize,
            timeouts: Timeouts {
                wait: p.wait_ms.map(ms),
                create: p.create_ms.map(ms),
                recycle: p.recycle_ms.map(ms),
            },
            queue_mode: if p.lifo { QueueMode::Lifo } else { QueueMode::Fifo },
        });
        c
    }
}

fn host_of(s: &str) -> Host {
    let mut c = tokio_postgres::Config::new();
    c.host(s);
    c.get_hosts()[0].clone()
}

pub fn check(c: &PgCase) -> Verdict {
    let mut v = Verdict::new();
    let cfg = c.to_config();
    // ---- get_pg_config never panics
    let r = match catch_unwind(AssertUnwindSafe(|| cfg.get_pg_config())) {
        Ok(r) => r,
        Err(p) => {
            v.fail("get-pg-config-panicked", format!("get_pg_config() panicked: {:?}", vcore::sched::classify_panic(p)));
            return v;
        }
    };
    // ---- reference translation
    let base = match &cfg.url {
        Some(u) => match tokio_postgres::Config::from_str(u) {
            Ok(b) => Some(b),
            Err(_) => None,
        },
        None => Some(tokio_postgres::Config::new()),
    };
    let set_fields = [
        cfg.user.is_some(),
        cfg.password.is_some(),
        cfg.dbname.is_some(),
        cfg.options.is_some(),
        cfg.application_name.is_some(),
        cfg.ssl_mode.is_some(),
        cfg.host.is_some(),
        cfg.hosts.is_some(),
        cfg.hostaddr.is_some(),
        cfg.hostaddrs.is_some(),
        cfg.port.is_some(),
        cfg.ports.is_some(),
        cfg.connect_timeout.is_some(),
        cfg.keepalives.is_some(),
        cfg.keepalives_idle.is_some(),
        cfg.target_session_attrs.is_some(),
        cfg.channel_binding.is_some(),
        cfg.load_balance_hosts.is_some(),
    ]
    .iter()
    .filter(|b| **b)
    .count();
    let expected_err: Option<&str> = match &base {
        None => Some("InvalidUrl"),
        Some(b) => {
            let db = cfg
                .dbname
                .as_deref()
                .filter(|s| !s.is_empty())
                .or(b.get_dbname());
            match db {
                None => Some("DbnameMissing"),
                Some("") => Some("DbnameEmpty"),
                _ => None,
            }
        }
    };
    match (&r, expected_err) {
        (Err(e), Some(want)) => {
            let got = match e {
                ConfigError::InvalidUrl(_) => "InvalidUrl",
                ConfigError::DbnameMissing => "DbnameMissing",
                ConfigError::DbnameEmpty => "DbnameEmpty",
            };
            v.label(&format!("err:{}", got));
            v.nontrivial = true;
            if got != want {
                v.fail("wrong-config-error", format!("get_pg_config() reported {} but the reference translation says {}", got, want));
            }
        }
        (Err(e), None) => v.fail("unexpected-config-error", format!("get_pg_config() failed with {:?} for a valid config", e)),
        (Ok(_), Some(want)) => v.fail("missing-config-error", format!("get_pg_config() succeeded but the reference translation says {}", want)),
        (Ok(pg), None) => {
            let b = base.as_ref().unwrap();
            v.label("ok");
            let mut overlap = false;
            let mut bad: Vec<String> = vec![];
            // user: an empty user counts as unset. A user named by the Config wins, else the URL's
            // stays; with neither, the statement leaves the result open (the implementation at
            // hand falls back to $USER) except that an empty user must not be in effect
            let want_user: Option<String> = cfg
                .user
                .clone()
                .filter(|s| !s.is_empty())
                .or(b.get_user().filter(|s| !s.is_empty()).map(|s| s.to_string()));
            if cfg.user.as_deref().is_some_and(|s| !s.is_empty()) && b.get_user().is_some() {
                overlap = true;
            }
            match &want_user {
                Some(_) => {
                    if pg.get_user().map(|s| s.to_string()) != want_user {
                        bad.push(format!("user is {:?}, expected {:?}", pg.get_user(), want_user));
                    }
                }
                None => {
                    v.label("user-unset");
                    if pg.get_user() == Some("") {
                        bad.push("an empty user is in effect (it counts as unset)".to_string());
                    }
                }
            }
            let want_pw: Option<Vec<u8>> = cfg.password.clone().map(|s| s.into_bytes()).or(b.get_password().map(|p| p.to_vec()));
            if cfg.password.is_some() && b.get_password().is_some() {
                overlap = true;
            }
            if pg.get_password().map(|p| p.to_vec()) != want_pw {
                bad.push(format!("password is {:?}, expected {:?}", pg.get_password(), want_pw));
            }
            let want_db = cfg.dbname.clone().filter(|s| !s.is_empty()).or(b.get_dbname().map(|s| s.to_string()));
            if cfg.dbname.as_deref().is_some_and(|s| !s.is_empty()) && b.get_dbname().is_some() {
                overlap = true;
            }
            if pg.get_dbname().map(|s| s.to_string()) != want_db {
                bad.push(format!("dbname is {:?}, expected {:?}", pg.get_dbname(), want_db));
            }
            let want_opt = cfg.options.clone().or(b.get_options().map(|s| s.to_string()));
            if cfg.options.is_some() && b.get_options().is_some() {
                overlap = true;
            }
            if pg.get_options().map(|s| s.to_string()) != want_opt {
                bad.push(format!("options is {:?}, expected {:?}", pg.get_options(), want_opt));
            }
            let want_app = cfg.application_name.clone().or(b.get_application_name().map(|s| s.to_string()));
            if cfg.application_name.is_some() && b.get_application_name().is_some() {
                overlap = true;
            }
            if pg.get_application_name().map(|s| s.to_string()) != want_app {
                bad.push(format!("application_name is {:?}, expected {:?}", pg.get_application_name(), want_app));
            }
            // enums and numbers (compared through Debug)
            let d = |x: &dyn std::fmt::Debug| format!("{:?}", x);
            let want_ssl = match cfg.ssl_mode {
                Some(m) => d(&tokio_postgres::config::SslMode::from(m)),
                None => d(&b.get_ssl_mode()),
            };
            if d(&pg.get_ssl_mode()) != want_ssl {
                bad.push(format!("ssl_mode is {:?}, expected {}", pg.get_ssl_mode(), want_ssl));
            }
            let want_tsa = match cfg.target_session_attrs {
                Some(m) => d(&tokio_postgres::config::TargetSessionAttrs::from(m)),
                None => d(&b.get_target_session_attrs()),
            };
            if d(&pg.get_target_session_attrs()) != want_tsa {
                bad.push(format!("target_session_attrs is {:?}, expected {}", pg.get_target_session_attrs(), want_tsa));
            }
            let want_cb = match cfg.channel_binding {
                Some(m) => d(&tokio_postgres::config::ChannelBinding::from(m)),
                None => d(&b.get_channel_binding()),
            };
            if d(&pg.get_channel_binding()) != want_cb {
                bad.push(format!("channel_binding is {:?}, expected {}", pg.get_channel_binding(), want_cb));
            }
            let want_lbh = match cfg.load_balance_hosts {
                Some(m) => d(&tokio_postgres::config::LoadBalanceHosts::from(m)),
                None => d(&b.get_load_balance_hosts()),
            };
            if d(&pg.get_load_balance_hosts()) != want_lbh {
                bad.push(format!("load_balance_hosts is {:?}, expected {}", pg.get_load_balance_hosts(), want_lbh));
            }
            let want_ct = cfg.connect_timeout.or(b.get_connect_timeout().copied());
            if pg.get_connect_timeout().copied() != want_ct {
                bad.push(format!("connect_timeout is {:?}, expected {:?}", pg.get_connect_timeout(), want_ct));
            }
            let want_ka = cfg.keepalives.unwrap_or(b.get_keepalives());
            if pg.get_keepalives() != want_ka {
                bad.push(format!("keepalives is {:?}, expected {:?}", pg.get_keepalives(), want_ka));
            }
            let want_kai = cfg.keepalives_idle.unwrap_or(b.get_keepalives_idle());
            if pg.get_keepalives_idle() != want_kai {
                bad.push(format!("keepalives_idle is {:?}, expected {:?}", pg.get_keepalives_idle(), want_kai));
            }
            // additive lists: URL's, then the singular, then the plural field
            let mut want_hosts: Vec<Host> = b.get_hosts().to_vec();
            if !want_hosts.is_empty() && (cfg.host.is_some() || cfg.hosts.is_some()) {
                overlap = true;
            }
            if let Some(h) = &cfg.host {
                want_hosts.push(host_of(h));
            }
            if let Some(hs) = &cfg.hosts {
                for h in hs {
                    want_hosts.push(host_of(h));
                }
            }
            if want_hosts.is_empty() {
                // "the platform's default socket directories or 127.0.0.1 are used only when no
                // host is given": one-directional, so with no host named the list may hold
                // defaults or nothing, but nothing else
                v.label("default-hosts");
                let defaults = [
                    Host::Unix("/run/postgresql".into()),
                    Host::Unix("/var/run/postgresql".into()),
                    Host::Unix("/tmp".into()),
                    Host::Tcp("127.0.0.1".into()),
                ];
                if let Some(h) = pg.get_hosts().iter().find(|h| !defaults.contains(h)) {
                    bad.push(format!("no host was given but hosts are {:?}: {:?} is not a platform default", pg.get_hosts(), h));
                }
            } else if pg.get_hosts() != &want_hosts[..] {
                bad.push(format!("hosts are {:?}, expected {:?}", pg.get_hosts(), want_hosts));
            }
            let mut want_addrs: Vec<IpAddr> = b.get_hostaddrs().to_vec();
            if let Some(a) = cfg.hostaddr {
                want_addrs.push(a);
            }
            if let Some(a) = &cfg.hostaddrs {
                want_addrs.extend(a.iter().copied());
            }
            if pg.get_hostaddrs() != &want_addrs[..] {
                bad.push(format!("hostaddrs are {:?}, expected {:?}", pg.get_hostaddrs(), want_addrs));
            }
            let mut want_ports: Vec<u16> = b.get_ports().to_vec();
            if !want_ports.is_empty() && (cfg.port.is_some() || cfg.ports.is_some()) {
                overlap = true;
            }
            if let Some(p) = cfg.port {
                want_ports.push(p);
            }
            if let Some(p) = &cfg.ports {
                want_ports.extend(p.iter().copied());
            }
            if pg.get_ports() != &want_ports[..] {
                bad.push(format!("ports are {:?}, expected {:?}", pg.get_ports(), want_ports));
            }
            if set_fields >= 3 && overlap {
                v.nontrivial = true;
            }
            if !bad.is_empty() {
                v.fail("config-translation", bad.join("; "));
            }
        }
    }
    if v.violation.is_some() {
        return v;
    }
    // ---- pool and manager sections reach the built pool; timeouts without a runtime are a build error
    let want_pool = cfg.pool.unwrap_or_default();
    let any_timeout = want_pool.timeouts.wait.is_some() || want_pool.timeouts.create.is_some() || want_pool.timeouts.recycle.is_some();
    let want_method = cfg.manager.clone().unwrap_or_default().recycling_method;
    // the builder carries the whole pool section (queue_mode is only visible there)
    if expected_err.is_none() {
        match catch_unwind(AssertUnwindSafe(|| cfg.builder(NoTls))) {
            Err(p) => v.fail("builder-panicked", format!("builder() panicked: {:?}", vcore::sched::classify_panic(p))),
            Ok(Err(e)) => v.fail("builder-config-error", format!("builder() failed with {:?} for a valid config", e)),
            Ok(Ok(b)) => {
                let dbg = format!("{:?}", b);
                for want in [
                    format!("max_size: {}", want_pool.max_size),
                    format!("queue_mode: {:?}", want_pool.queue_mode),
                    format!("wait: {:?}", want_pool.timeouts.wait),
                    format!("create: {:?}", want_pool.timeouts.create),
                    format!("recycle: {:?}", want_pool.timeouts.recycle),
                    format!("recycling_method: {:?}", want_method),
                ] {
                    // the Debug representation is the only window into the builder; its format is
                    // not contractual, so a key that is not shown at all is not judged
                    let key = format!("{}: ", want.split(": ").next().unwrap_or(""));
                    if !dbg.contains(&key) {
                        v.label("builder-debug-lacks-key");
                        continue;
                    }
                    if !dbg.contains(&want) {
                        v.fail("builder-section-lost", format!("builder() does not carry `{}`: {}", want, dbg));
                    }
                }
            }
        }
        if v.violation.is_some() {
            return v;
        }
    }
    let rt = if c.runtime { Some(Runtime::Tokio1) } else { None };
    // an ambient tokio context must make no difference: only the runtime argument counts
    let ambient = if c.in_tokio {
        v.label("create_pool:inside-tokio-context");
        tokio::runtime::Builder::new_current_thread().enable_all().build().ok()
    } else {
        None
    };
    let _guard = ambient.as_ref().map(|r| r.enter());
    let cp = catch_unwind(AssertUnwindSafe(|| cfg.create_pool(rt, NoTls)));
    match cp {
        Err(p) => v.fail("create-pool-panicked", format!("create_pool() panicked: {:?}", vcore::sched::classify_panic(p))),
        Ok(Err(CreatePoolError::Config(e))) => {
            if expected_err.is_none() {
                v.fail("create-pool-config-error", format!("create_pool() failed with Config({:?}) for a valid config", e));
            }
        }
        Ok(Err(CreatePoolError::Build(e))) => {
            v.label("create_pool:Build");
            v.nontrivial = true;
            // a Config that is invalid *and* sets timeouts without a runtime may be refused for
            // either reason: the statement gives no precedence
            if !(any_timeout && rt.is_none()) {
                v.fail("create-pool-build-error", format!("create_pool() failed with Build({:?}) (timeouts {:?}, runtime {:?})", e, want_pool.timeouts, rt));
            }
        }
        Ok(Ok(pool)) => {
            v.label("create_pool:ok");
            if expected_err.is_some() {
                v.fail("create-pool-accepted-bad-config", format!("create_pool() succeeded although get_pg_config() fails with {:?}", expected_err));
            } else if any_timeout && rt.is_none() {
                v.fail(
                    "timeouts-without-runtime-accepted",
                    format!("create_pool() succeeded with timeouts {:?} and no runtime", want_pool.timeouts),
                );
            } else {
                let st = pool.status();
                let t = pool.timeouts();
                if st.max_size != want_pool.max_size || t.wait != want_pool.timeouts.wait || t.create != want_pool.timeouts.create || t.recycle != want_pool.timeouts.recycle {
                    v.fail(
                        "pool-section-lost",
                        format!("built pool has max_size {} and timeouts {:?}, configured {:?}", st.max_size, t, want_pool),
                    );
                }
                let dbg = format!("{:?}", pool.manager());
                if !dbg.contains("recycling_method: ") {
                    v.label("manager-debug-lacks-recycling-method");
                } else if !dbg.contains(&format!("recycling_method: {:?}", want_method)) {
                    v.fail("manager-section-lost", format!("manager {:?} does not show recycling method {:?}", dbg, want_method));
                }
            }
        }
    }
    v
}

// ------------------------------------------------------------------ generation

fn text() -> BoxedStrategy<String> {
    prop_oneof![
        6 => prop::sample::select(vec![
            "", "a", "postgres", "deadpool", "john doe", "o'brien", "pct%20enc", "ünï", "日本", "with\"quote", " lead", "trail ",
            "back\\slash", "semi;colon", "eq=sign", "-c geqo=off", "x'; DROP TABLE t; --",
        ])
        .prop_map(|s| s.to_string()),
        2 => "[ -~]{0,12}",
        1 => "\\PC{0,8}",
    ]
    .boxed()
}

fn hostname() -> BoxedStrategy<String> {
    prop_oneof![
        5 => prop::sample::select(vec!["localhost", "pg.example.com", "127.0.0.1", "db-1", "/var/run/postgresql", "/tmp", "[::1]", "10.0.0.7", ""]).prop_map(|s| s.to_string()),
        1 => "[a-z0-9.-]{1,12}",
        1 => text(),
    ]
    .boxed()
}

/// ports from a small pool so that the URL, `port` and `ports` often name the same number
fn port() -> BoxedStrategy<u16> {
    prop_oneof![
        4 => prop::sample::select(vec![5432u16, 5433, 6000, 6432]),
        2 => any::<u16>(),
    ]
    .boxed()
}

fn ip() -> BoxedStrategy<String> {
    prop::sample::select(vec!["127.0.0.1", "10.0.0.7", "::1", "192.168.1.1", "fe80::1"]).prop_map(|s| s.to_string()).boxed()
}

fn enc(s: &str) -> String {
    // percent-encode what would break a URI component
    let mut o = String::new();
    for b in s.bytes() {
        if b.is_ascii_alphanumeric() || b"-._~".contains(&b) {
            o.push(b as char);
        } else {
            o.push_str(&format!("%{:02X}", b));
        }
    }
    o
}

fn url() -> BoxedStrategy<Option<String>> {
    let uri = (
        prop::sample::select(vec!["postgres://", "postgresql://"]),
        prop::option::of((text(), prop::option::of(text()))),
        prop::collection::vec((hostname(), prop::option::of(port().prop_map(|p| p.max(1)))), 0..3),
        prop::option::of(text()),
        prop::collection::vec(
            prop::sample::select(vec![
                "sslmode=disable", "sslmode=prefer", "sslmode=require", "application_name=app1", "connect_timeout=5",
                "target_session_attrs=read-write", "target_session_attrs=any", "channel_binding=require", "channel_binding=disable",
                "options=-c%20geqo%3Doff", "keepalives=0", "keepalives=1", "keepalives_idle=30", "load_balance_hosts=random",
                "host=other.example.com", "port=6000", "user=quser", "password=qpw", "dbname=qdb", "hostaddr=10.1.1.1", "bogus=1",
            ]),
            0..4,
        ),
    )
        .prop_map(|(scheme, userinfo, hosts, db, params)| {
            let mut s = scheme.to_string();
            if let Some((u, p)) = userinfo {
                s.push_str(&enc(&u));
                if let Some(p) = p {
                    s.push(':');
                    s.push_str(&enc(&p));
                }
                s.push('@');
            }
            let hs: Vec<String> = hosts
                .iter()
                .map(|(h, p)| {
                    let h = if h.starts_with('/') { enc(h) } else { h.clone() };
                    match p {
                        Some(p) => format!("{}:{}", h, p),
                        None => h,
                    }
                })
                .collect();
            s.push_str(&hs.join(","));
            if let Some(db) = db {
                s.push('/');
                s.push_str(&enc(&db));
            }
            if !params.is_empty() {
                s.push('?');
                s.push_str(&params.join("&"));
            }
            s
        });
    let kv = prop::collection::vec(
        prop::sample::select(vec![
            "host=localhost", "host=/var/run/postgresql", "host=a,b", "port=5432", "port=5432,5433", "user=kvuser", "user=''", "password=secret",
            "password='with space'", "dbname=kvdb", "dbname=''", "sslmode=require", "application_name=kvapp", "connect_timeout=3",
            "target_session_attrs=read-write", "channel_binding=prefer", "load_balance_hosts=random", "hostaddr=127.0.0.1", "keepalives=0",
            "options='-c x=y'", "nonsense", "port=notanumber",
        ]),
        0..6,
    )
    .prop_map(|v| v.join(" "));
    let mutated = (uri.clone(), any::<u8>(), prop::sample::select(vec!["%", "@", ":", "/", "?", "#", " ", "\u{e9}", "=", "&", "[", ","])).prop_map(|(u, pos, ins)| {
        let mut chars: Vec<char> = u.chars().collect();
        let i = (pos as usize * (chars.len() + 1)) >> 8;
        for (k, ch) in ins.chars().enumerate() {
            chars.insert(i + k, ch);
        }
        chars.into_iter().collect::<String>()
    });
    prop_oneof![
        4 => Just(None),
        5 => uri.prop_map(Some),
        2 => kv.prop_map(Some),
        2 => mutated.prop_map(Some),
        1 => "\\PC{0,24}".prop_map(Some),
    ]
    .boxed()
}

/// pool timeouts in milliseconds; zero is a value of its own (non-blocking), not "no timeout"
fn ms() -> BoxedStrategy<u32> {
    prop_oneof![1 => Just(0u32), 4 => 0u32..5000].boxed()
}

fn opt<T: std::fmt::Debug + Clone + 'static>(s: BoxedStrategy<T>) -> BoxedStrategy<Option<T>> {
    prop::option::weighted(0.35, s).boxed()
}

pub fn case() -> BoxedStrategy<PgCase> {
    let a = (
        url(),
        opt(text()),
        opt(text()),
        prop::option::weighted(0.6, prop_oneof![3 => Just("deadpool".to_string()), 1 => text()]).boxed(),
        opt(text()),
        opt(text()),
        opt(any::<u8>().boxed()),
        opt(hostname()),
        opt(prop::collection::vec(hostname(), 0..3).boxed()),
    );
    let b = (
        opt(ip()),
        opt(prop::collection::vec(ip(), 0..3).boxed()),
        opt(port()),
        opt(prop::collection::vec(port(), 0..3).boxed()),
        opt((0u32..100000).boxed()),
        opt(any::<bool>().boxed()),
        opt((0u32..100000).boxed()),
        opt(any::<u8>().boxed()),
        opt(any::<u8>().boxed()),
        opt(any::<u8>().boxed()),
    );
    let c = (
        opt(any::<u8>().boxed()),
        opt((0u16..=4096, opt(ms()), opt(ms()), opt(ms()), any::<bool>())
            .prop_map(|(max_size, wait_ms, create_ms, recycle_ms, lifo)| PoolCase {
                max_size,
                wait_ms,
                create_ms,
                recycle_ms,
                lifo,
            })
            .boxed()),
        any::<bool>(),
        prop::bool::weighted(0.3),
    );
    (a, b, c)
        .prop_map(|(a, b, c)| PgCase {
            url: a.0,
            user: a.1,
            password: a.2,
            dbname: a.3,
            options: a.4,
            application_name: a.5,
            ssl_mode: a.6,
            host: a.7,
            hosts: a.8,
            hostaddr: b.0,
            hostaddrs: b.1,
            port: b.2,
            ports: b.3,
            connect_timeout_ms: b.4,
            keepalives: b.5,
            keepalives_idle_ms: b.6,
            target_session_attrs: b.7,
            channel_binding: b.8,
            load_balance_hosts: b.9,
            manager: c.0,
            pool: c.1,
            runtime: c.2,
            in_tokio: c.3,
        })
        .boxed()
}

/// Byte-level decoding for the libFuzzer target: three bytes of field flags, then
/// 0xff-separated text chunks handed to the textual fields in order (url first).
pub fn decode(data: &[u8]) -> PgCase {
    let flags = data.iter().take(3).fold(0u32, |a, b| (a << 8) | *b as u32);
    let rest = if data.len() > 3 { &data[3..] } else { &[][..] };
    let mut chunks = rest.split(|b| *b == 0xff).map(|c| String::from_utf8_lossy(c).to_string());
    let mut next = |bit: u32| -> Option<String> {
        let c = chunks.next();
        if flags >> bit & 1 == 1 {
            Some(c.unwrap_or_default())
        } else {
            None
        }
    };
    let url = next(0);
    let user = next(1);
    let password = next(2);
    let dbname = next(3);
    let options = next(4);
    let application_name = next(5);
    let host = next(6);
    let hosts = next(7).map(|s| s.split(',').map(|x| x.to_string()).collect());
    let num = |bit: u32, m: u32| -> Option<u32> {
        if flags >> bit & 1 == 1 {
            Some((flags.wrapping_mul(2654435761).rotate_left(bit)) % m)
        } else {
            None
        }
    };
    PgCase {
        url,
        user,
        password,
        dbname,
        options,
        application_name,
        ssl_mode: num(8, 3).map(|v| v as u8),
        host,
        hosts,
        hostaddr: num(9, 2).map(|v| if v == 0 { "127.0.0.1".to_string() } else { "::1".to_string() }),
        hostaddrs: num(10, 3).map(|v| (0..v).map(|i| format!("10.0.0.{}", i + 1)).collect()),
        port: num(11, 65536).map(|v| v as u16),
        ports: num(12, 3).map(|v| (0..v).map(|i| 5432 + i as u16).collect()),
        connect_timeout_ms: num(13, 100000),
        keepalives: num(14, 2).map(|v| v == 1),
        keepalives_idle_ms: num(15, 100000),
        target_session_attrs: num(16, 2).map(|v| v as u8),
        channel_binding: num(17, 3).map(|v| v as u8),
        load_balance_hosts: num(18, 2).map(|v| v as u8),
        manager: num(19, 4).map(|v| v as u8),
        pool: num(20, 64).map(|v| PoolCase {
            max_size: v as u16,
            wait_ms: num(21, 5000),
            create_ms: num(22, 5000),
            recycle_ms: None,
            lifo: v % 2 == 1,
        }),
        runtime: flags >> 23 & 1 == 1,
        in_tokio: flags >> 22 & 1 == 1,
    }
}
