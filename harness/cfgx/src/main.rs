//! thin binary around the `cfgx` library (see lib.rs)

fn main() {
    // a fixed fallback user name for get_pg_config()
    std::env::set_var("USER", "verifuser");
    vcore::main_for::<cfgx::Cfgx>()
}
