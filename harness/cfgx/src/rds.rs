//! C19: redis configs (standalone / cluster / sentinel), conversions, serialisation.

use std::collections::HashMap;
use std::panic::{catch_unwind, AssertUnwindSafe};
use std::path::PathBuf;
use std::sync::atomic::{AtomicUsize, Ordering};
use std::sync::Arc;
use std::time::Duration;

use deadpool::managed::{PoolConfig, QueueMode, Timeouts};
use deadpool_redis as dr;
use proptest::prelude::*;
use proptest::strategy::BoxedStrategy;
use serde::{Deserialize, Serialize};

use crate::Verdict;

#[derive(Clone, Debug, Serialize, Deserialize, PartialEq)]
pub enum AddrCase {
    Tcp(String, u16),
    TcpTls { host: String, port: u16, insecure: bool },
    Unix(String),
}

#[derive(Clone, Debug, Serialize, Deserialize, PartialEq)]
pub struct ConnCase {
    pub addr: AddrCase,
    pub db: i64,
    pub username: Option<String>,
    pub password: Option<String>,
    pub resp3: bool,
}

#[derive(Clone, Debug, Serialize, Deserialize, PartialEq)]
pub struct NodeCase {
    /// 0 none, 1 secure, 2 insecure
    pub tls: u8,
    pub info: Option<(i64, Option<String>, Option<String>, bool)>,
}

#[derive(Clone, Debug, Serialize, Deserialize)]
pub struct PoolCase {
    pub max_size: u32,
    pub wait: Option<(u64, u32)>,
    pub create: Option<(u64, u32)>,
    pub recycle: Option<(u64, u32)>,
    pub lifo: bool,
}

#[derive(Clone, Debug, Serialize, Deserialize)]
pub enum RedisCase {
    Standalone { url: Option<String>, conn: Option<ConnCase>, max_size: Option<u16> },
    Cluster { urls: Option<Vec<String>>, conns: Option<Vec<ConnCase>>, read_from_replicas: bool },
    Sentinel { urls: Option<Vec<String>>, conns: Option<Vec<ConnCase>>, master: String, replica: bool, node: Option<NodeCase> },
    RoundTrip { conn: ConnCase, from_redis: bool },
    NodeRoundTrip { node: NodeCase, from_redis: bool },
    SerdePool { pool: PoolCase, omit_timeouts: bool, omit_queue_mode: bool, env_style: bool },
    SerdeConfig { with_pool: Option<PoolCase>, flavour: u8 },
    Listeners { sentinel: bool, named: u16, via_urls: bool },
}

fn dp_addr(a: &AddrCase) -> dr::ConnectionAddr {
    match a {
        AddrCase::Tcp(h, p) => dr::ConnectionAddr::Tcp(h.clone(), *p),
        AddrCase::TcpTls { host, port, insecure } => dr::ConnectionAddr::TcpTls {
            host: host.clone(),
            port: *port,
            insecure: *insecure,
        },
        AddrCase::Unix(p) => dr::ConnectionAddr::Unix(PathBuf::from(p)),
    }
}

fn dp_conn(c: &ConnCase) -> dr::ConnectionInfo {
    dr::ConnectionInfo {
        addr: dp_addr(&c.addr),
        redis: dr::RedisConnectionInfo {
            db: c.db,
            username: c.username.clone(),
            password: c.password.clone(),
            protocol: if c.resp3 { dr::ProtocolVersion::RESP3 } else { dr::ProtocolVersion::RESP2 },
        },
    }
}

/// field-wise rendering of deadpool's description (its Debug output is not contractual and
/// may, for instance, hide the password)
fn dp_repr(c: &dr::ConnectionInfo) -> String {
    let addr = match &c.addr {
        dr::ConnectionAddr::Tcp(h, p) => format!("tcp {:?} {}", h, p),
        dr::ConnectionAddr::TcpTls { host, port, insecure } => format!("tls {:?} {} insecure={}", host, port, insecure),
        dr::ConnectionAddr::Unix(p) => format!("unix {:?}", p),
    };
    let proto = match c.redis.protocol {
        dr::ProtocolVersion::RESP2 => 2,
        dr::ProtocolVersion::RESP3 => 3,
    };
    format!("{} db={} user={:?} password={:?} resp{}", addr, c.redis.db, c.redis.username, c.redis.password, proto)
}

/// Does the Debug output of a manager show the named server? Only what the output renders in
/// the redis crate's own format is judged; a component it does not show that way (a masked
/// password, a different layout) is skipped.
fn manager_shows(dbg: &str, info: &redis::ConnectionInfo) -> Result<bool, String> {
    let whole = format!("{:?}", info);
    if dbg.contains(&whole) {
        return Ok(true);
    }
    let mut judged = false;
    let addr = format!("addr: {:?}", info.addr);
    if dbg.contains("addr: ") {
        judged = true;
        if !dbg.contains(&addr) {
            return Err(format!("address {:?} not shown", info.addr));
        }
    }
    for (key, want) in [
        ("db: ", format!("db: {}", info.redis.db)),
        ("username: ", format!("username: {:?}", info.redis.username)),
        ("protocol: ", format!("protocol: {:?}", info.redis.protocol)),
    ] {
        if dbg.contains(key) {
            judged = true;
            if !dbg.contains(&want) {
                return Err(format!("`{}` not shown", want));
            }
        }
    }
    // a password is judged only where it is rendered as a plain Option<String>
    for (i, _) in dbg.match_indices("password: ") {
        let rest = &dbg[i + "password: ".len()..];
        if rest.starts_with("None") || rest.starts_with("Some(\"") {
            judged = true;
            let want = format!("{:?}", info.redis.password);
            if !rest.starts_with(&want) {
                return Err("another password shown".into());
            }
        }
    }
    Ok(judged)
}

/// the redis crate's value, built by hand (independent of deadpool's From impls)
fn rd_conn(c: &ConnCase) -> redis::ConnectionInfo {
    redis::ConnectionInfo {
        addr: match &c.addr {
            AddrCase::Tcp(h, p) => redis::ConnectionAddr::Tcp(h.clone(), *p),
            AddrCase::TcpTls { host, port, insecure } => redis::ConnectionAddr::TcpTls {
                host: host.clone(),
                port: *port,
                insecure: *insecure,
                tls_params: None,
            },
            AddrCase::Unix(p) => redis::ConnectionAddr::Unix(PathBuf::from(p)),
        },
        redis: redis::RedisConnectionInfo {
            db: c.db,
            username: c.username.clone(),
            password: c.password.clone(),
            protocol: if c.resp3 { redis::ProtocolVersion::RESP3 } else { redis::ProtocolVersion::RESP2 },
        },
    }
}

fn dp_node(n: &NodeCase) -> dr::sentinel::SentinelNodeConnectionInfo {
    dr::sentinel::SentinelNodeConnectionInfo {
        tls_mode: match n.tls {
            0 => None,
            1 => Some(dr::sentinel::TlsMode::Secure),
            _ => Some(dr::sentinel::TlsMode::Insecure),
        },
        redis_connection_info: n.info.as_ref().map(|(db, u, p, r3)| dr::RedisConnectionInfo {
            db: *db,
            username: u.clone(),
            password: p.clone(),
            protocol: if *r3 { dr::ProtocolVersion::RESP3 } else { dr::ProtocolVersion::RESP2 },
        }),
    }
}

fn rd_node(n: &NodeCase) -> redis::sentinel::SentinelNodeConnectionInfo {
    redis::sentinel::SentinelNodeConnectionInfo {
        tls_mode: match n.tls {
            0 => None,
            1 => Some(redis::TlsMode::Secure),
            _ => Some(redis::TlsMode::Insecure),
        },
        redis_connection_info: n.info.as_ref().map(|(db, u, p, r3)| redis::RedisConnectionInfo {
            db: *db,
            username: u.clone(),
            password: p.clone(),
            protocol: if *r3 { redis::ProtocolVersion::RESP3 } else { redis::ProtocolVersion::RESP2 },
        }),
    }
}

fn dur(d: Option<(u64, u32)>) -> Option<Duration> {
    d.map(|(s, n)| Duration::new(s, n))
}

fn pool_cfg(p: &PoolCase) -> PoolConfig {
    PoolConfig {
        max_size: p.max_size as usize,
        timeouts: Timeouts {
            wait: dur(p.wait),
            create: dur(p.create),
            recycle: dur(p.recycle),
        },
        queue_mode: if p.lifo { QueueMode::Lifo } else { QueueMode::Fifo },
    }
}

fn same_pool(a: &PoolConfig, b: &PoolConfig) -> bool {
    a.max_size == b.max_size
        && a.timeouts.wait == b.timeouts.wait
        && a.timeouts.create == b.timeouts.create
        && a.timeouts.recycle == b.timeouts.recycle
        && matches!((a.queue_mode, b.queue_mode), (QueueMode::Fifo, QueueMode::Fifo) | (QueueMode::Lifo, QueueMode::Lifo))
}

fn interesting(c: &ConnCase) -> bool {
    c.username.is_some() || c.password.is_some() || c.db != 0 || c.resp3
}

#[derive(Serialize, Deserialize, Debug)]
struct Wrap {
    pool: PoolConfig,
}

pub fn check(c: &RedisCase) -> Verdict {
    let mut v = Verdict::new();
    let r = catch_unwind(AssertUnwindSafe(|| check_inner(c, &mut v)));
    if let Err(p) = r {
        v.fail("redis-config-panicked", format!("a configuration call panicked: {:?}", vcore::sched::classify_panic(p)));
    }
    v
}

fn check_inner(c: &RedisCase, v: &mut Verdict) {
    match c {
        RedisCase::Standalone { url, conn, max_size } => {
            v.label("standalone");
            let cfg = dr::Config {
                url: url.clone(),
                connection: conn.as_ref().map(dp_conn),
                pool: max_size.map(|m| PoolConfig::new(m as usize)),
            };
            let res = cfg.builder();
            match (url, conn) {
                (Some(_), Some(_)) => {
                    v.nontrivial = true;
                    v.label("both");
                    if !matches!(res, Err(dr::ConfigError::UrlAndConnectionSpecified)) {
                        v.fail("both-not-rejected", format!("url and connection both set but builder() returned {:?}", res.map(|_| "Ok")));
                    }
                }
                _ => {
                    let reference: Result<redis::Client, redis::RedisError> = match (url, conn) {
                        (Some(u), None) => redis::Client::open(u.as_str()),
                        (None, Some(ci)) => redis::Client::open(rd_conn(ci)),
                        _ => redis::Client::open(redis::ConnectionInfo {
                            addr: redis::ConnectionAddr::Tcp("127.0.0.1".into(), 6379),
                            redis: redis::RedisConnectionInfo::default(),
                        }),
                    };
                    match (res, reference) {
                        (Err(dr::ConfigError::Redis(_)), Err(_)) => {
                            v.nontrivial = true;
                            v.label("rejected");
                        }
                        (Err(e), Err(_)) => v.fail("wrong-error-kind", format!("malformed configuration reported as {:?}", e)),
                        (Err(e), Ok(_)) => v.fail("valid-config-rejected", format!("builder() failed with {:?} but the redis crate accepts the same parameters", e)),
                        (Ok(_), Err(e)) => v.fail("invalid-config-accepted", format!("builder() succeeded but the redis crate rejects the same parameters: {}", e)),
                        (Ok(b), Ok(client)) => {
                            let info = client.get_connection_info();
                            if info.redis.username.is_some() || info.redis.password.is_some() || info.redis.db != 0 || info.redis.protocol != redis::ProtocolVersion::RESP2 {
                                v.nontrivial = true;
                            }
                            match b.build() {
                                Err(e) => v.fail("build-failed", format!("build() failed: {:?}", e)),
                                Ok(pool) => {
                                    let dbg = format!("{:?}", pool.manager());
                                    match manager_shows(&dbg, info) {
                                        Ok(true) => {}
                                        Ok(false) => v.label("manager-debug-not-readable"),
                                        Err(why) => v.fail("wrong-server", format!("manager is {} but the named server is {:?} ({})", dbg, info, why)),
                                    }
                                    let want_max = max_size.map(|m| m as usize).unwrap_or(PoolConfig::default().max_size);
                                    if pool.status().max_size != want_max {
                                        v.fail("pool-section-lost", format!("max_size {} but configured {}", pool.status().max_size, want_max));
                                    }
                                }
                            }
                        }
                    }
                }
            }
        }
        RedisCase::Cluster { urls, conns, read_from_replicas } => {
            v.label("cluster");
            let cfg = dr::cluster::Config {
                urls: urls.clone(),
                connections: conns.as_ref().map(|v| v.iter().map(dp_conn).collect()),
                pool: None,
                read_from_replicas: *read_from_replicas,
            };
            let res = cfg.builder();
            if urls.is_some() && conns.is_some() {
                v.nontrivial = true;
                v.label("both");
                if !matches!(res, Err(dr::ConfigError::UrlAndConnectionSpecified)) {
                    v.fail("both-not-rejected", format!("urls and connections both set but builder() returned {:?}", res.map(|_| "Ok")));
                }
                return;
            }
            let reference = match (urls, conns) {
                (Some(u), None) => redis::cluster::ClusterClientBuilder::new(u.iter().map(|s| s.as_str()).collect::<Vec<_>>()).build().map(|_| ()),
                (None, Some(ci)) => redis::cluster::ClusterClientBuilder::new(ci.iter().map(rd_conn).collect::<Vec<_>>()).build().map(|_| ()),
                _ => Ok(()),
            };
            judge(v, res.map(|_| ()), reference);
            if let Some(ci) = conns {
                if ci.iter().any(interesting) {
                    v.nontrivial = true;
                }
            }
        }
        RedisCase::Sentinel { urls, conns, master, replica, node } => {
            v.label("sentinel");
            let st = if *replica { dr::sentinel::SentinelServerType::Replica } else { dr::sentinel::SentinelServerType::Master };
            let cfg = dr::sentinel::Config {
                urls: urls.clone(),
                server_type: st,
                master_name: master.clone(),
                connections: conns.as_ref().map(|v| v.iter().map(dp_conn).collect()),
                node_connection_info: node.as_ref().map(dp_node),
                pool: None,
            };
            let res = cfg.builder();
            if urls.is_some() && conns.is_some() {
                v.nontrivial = true;
                v.label("both");
                if !matches!(res, Err(dr::ConfigError::UrlAndConnectionSpecified)) {
                    v.fail("both-not-rejected", format!("urls and connections both set but builder() returned {:?}", res.map(|_| "Ok")));
                }
                return;
            }
            let rst = if *replica { redis::sentinel::SentinelServerType::Replica } else { redis::sentinel::SentinelServerType::Master };
            let reference = match (urls, conns) {
                (Some(u), None) => redis::sentinel::SentinelClient::build(u.iter().map(|s| s.as_str()).collect::<Vec<_>>(), master.clone(), node.as_ref().map(rd_node), rst).map(|_| ()),
                (None, Some(ci)) => redis::sentinel::SentinelClient::build(ci.iter().map(rd_conn).collect::<Vec<_>>(), master.clone(), node.as_ref().map(rd_node), rst).map(|_| ()),
                _ => Ok(()),
            };
            judge(v, res.map(|_| ()), reference);
            if node.is_some() {
                v.nontrivial = true;
            }
        }
        RedisCase::RoundTrip { conn, from_redis } => {
            v.label("roundtrip");
            v.nontrivial = interesting(conn);
            if *from_redis {
                let r0 = rd_conn(conn);
                let d: dr::ConnectionInfo = r0.clone().into();
                let r1: redis::ConnectionInfo = d.into();
                if format!("{:?}", r0) != format!("{:?}", r1) {
                    v.fail("roundtrip-lossy", format!("redis -> deadpool -> redis changed {:?} into {:?}", r0, r1));
                }
            } else {
                let d0 = dp_conn(conn);
                let r: redis::ConnectionInfo = d0.clone().into();
                // the redis value must carry exactly the described fields
                if format!("{:?}", r) != format!("{:?}", rd_conn(conn)) {
                    v.fail("conversion-wrong", format!("deadpool -> redis produced {:?}, expected {:?}", r, rd_conn(conn)));
                }
                let d1: dr::ConnectionInfo = r.into();
                if dp_repr(&d0) != dp_repr(&d1) {
                    v.fail("roundtrip-lossy", format!("deadpool -> redis -> deadpool changed {} into {}", dp_repr(&d0), dp_repr(&d1)));
                }
            }
        }
        RedisCase::NodeRoundTrip { node, from_redis } => {
            v.label("node-roundtrip");
            v.nontrivial = node.info.is_some() || node.tls != 0;
            fn repr(n: &redis::sentinel::SentinelNodeConnectionInfo) -> String {
                let tls = match n.tls_mode {
                    None => "none",
                    Some(redis::TlsMode::Secure) => "secure",
                    Some(redis::TlsMode::Insecure) => "insecure",
                };
                format!("tls={} info={:?}", tls, n.redis_connection_info)
            }
            if *from_redis {
                let r0 = rd_node(node);
                let d: dr::sentinel::SentinelNodeConnectionInfo = rd_node(node).into();
                let r1: redis::sentinel::SentinelNodeConnectionInfo = d.into();
                if repr(&r0) != repr(&r1) {
                    v.fail("roundtrip-lossy", format!("redis -> deadpool -> redis changed {} into {}", repr(&r0), repr(&r1)));
                }
            } else {
                let d0 = dp_node(node);
                let r: redis::sentinel::SentinelNodeConnectionInfo = d0.clone().into();
                if repr(&r) != repr(&rd_node(node)) {
                    v.fail("conversion-wrong", format!("deadpool -> redis produced {}, expected {}", repr(&r), repr(&rd_node(node))));
                }
                let d1: dr::sentinel::SentinelNodeConnectionInfo = r.into();
                fn node_repr(n: &dr::sentinel::SentinelNodeConnectionInfo) -> String {
                    let tls = match n.tls_mode {
                        None => "none",
                        Some(dr::sentinel::TlsMode::Secure) => "secure",
                        Some(dr::sentinel::TlsMode::Insecure) => "insecure",
                    };
                    let info = n.redis_connection_info.as_ref().map(|r| {
                        let proto = match r.protocol {
                            dr::ProtocolVersion::RESP2 => 2,
                            dr::ProtocolVersion::RESP3 => 3,
                        };
                        format!("db={} user={:?} password={:?} resp{}", r.db, r.username, r.password, proto)
                    });
                    format!("tls={} info={:?}", tls, info)
                }
                if node_repr(&d0) != node_repr(&d1) {
                    v.fail("roundtrip-lossy", format!("deadpool -> redis -> deadpool changed {} into {}", node_repr(&d0), node_repr(&d1)));
                }
            }
        }
        RedisCase::SerdePool { pool, omit_timeouts, omit_queue_mode, env_style } => {
            let p0 = pool_cfg(pool);
            let nanos = [pool.wait, pool.create, pool.recycle].iter().flatten().any(|d| d.1 != 0);
            v.nontrivial = nanos || *omit_timeouts || *omit_queue_mode;
            let mut expect = p0;
            if *omit_timeouts {
                expect.timeouts = Timeouts::default();
            }
            if *omit_queue_mode {
                expect.queue_mode = QueueMode::Fifo;
            }
            if *env_style {
                v.label("serde-env");
                let mut m: HashMap<String, String> = HashMap::new();
                m.insert("POOL__MAX_SIZE".into(), pool.max_size.to_string());
                if !*omit_timeouts {
                    for (name, d) in [("WAIT", pool.wait), ("CREATE", pool.create), ("RECYCLE", pool.recycle)] {
                        if let Some((s, n)) = d {
                            m.insert(format!("POOL__TIMEOUTS__{}__SECS", name), s.to_string());
                            m.insert(format!("POOL__TIMEOUTS__{}__NANOS", name), n.to_string());
                        }
                    }
                } else {
                    expect.timeouts = Timeouts::default();
                }
                if !*omit_queue_mode {
                    m.insert("POOL__QUEUE_MODE".into(), if pool.lifo { "Lifo".into() } else { "Fifo".into() });
                }
                let got = config::Config::builder()
                    .add_source(config::Environment::default().separator("__").source(Some(m.clone())))
                    .build()
                    .and_then(|c| c.try_deserialize::<Wrap>());
                match got {
                    Err(e) => v.fail("env-deserialize-failed", format!("{:?} could not be read: {}", m, e)),
                    Ok(w) => {
                        if !same_pool(&w.pool, &expect) {
                            v.fail("env-roundtrip", format!("{:?} was read as {:?}, expected {:?}", m, w.pool, expect));
                        }
                    }
                }
            } else {
                v.label("serde-json");
                let mut val = serde_json::to_value(&p0).expect("serialise");
                if let Some(o) = val.as_object_mut() {
                    if *omit_timeouts {
                        o.remove("timeouts");
                    }
                    if *omit_queue_mode {
                        o.remove("queue_mode");
                    }
                }
                let text = serde_json::to_string(&val).expect("to_string");
                match serde_json::from_str::<PoolConfig>(&text) {
                    Err(e) => v.fail("json-deserialize-failed", format!("{} could not be read back: {}", text, e)),
                    Ok(p1) => {
                        if !same_pool(&p1, &expect) {
                            v.fail("json-roundtrip", format!("{} was read back as {:?}, expected {:?}", text, p1, expect));
                        }
                    }
                }
                // Timeouts and QueueMode on their own
                let t1: Timeouts = serde_json::from_str(&serde_json::to_string(&p0.timeouts).unwrap()).expect("timeouts");
                if t1.wait != p0.timeouts.wait || t1.create != p0.timeouts.create || t1.recycle != p0.timeouts.recycle {
                    v.fail("json-roundtrip", format!("Timeouts {:?} read back as {:?}", p0.timeouts, t1));
                }
                let q1: QueueMode = serde_json::from_str(&serde_json::to_string(&p0.queue_mode).unwrap()).expect("queue mode");
                if format!("{:?}", q1) != format!("{:?}", p0.queue_mode) {
                    v.fail("json-roundtrip", format!("QueueMode {:?} read back as {:?}", p0.queue_mode, q1));
                }
            }
        }
        RedisCase::SerdeConfig { with_pool, flavour } => {
            v.label("serde-config");
            // an omitted pool section means PoolConfig::default()
            let expect = with_pool.as_ref().map(pool_cfg).unwrap_or_default();
            v.nontrivial = with_pool.is_none() || with_pool.as_ref().map(|p| p.lifo).unwrap_or(false);
            let pool_json = with_pool.as_ref().map(|p| serde_json::to_value(pool_cfg(p)).unwrap());
            let got: Result<PoolConfig, String> = match flavour % 3 {
                0 => {
                    let mut o = serde_json::json!({"url": "redis://127.0.0.1/"});
                    if let Some(p) = pool_json {
                        o["pool"] = p;
                    }
                    serde_json::from_value::<dr::Config>(o).map(|c| c.get_pool_config()).map_err(|e| e.to_string())
                }
                1 => {
                    let mut o = serde_json::json!({"urls": ["redis://127.0.0.1/"]});
                    if let Some(p) = pool_json {
                        o["pool"] = p;
                    }
                    serde_json::from_value::<dr::cluster::Config>(o).map(|c| c.get_pool_config()).map_err(|e| e.to_string())
                }
                _ => {
                    let mut o = serde_json::json!({"urls": ["redis://127.0.0.1/"]});
                    if let Some(p) = pool_json {
                        o["pool"] = p;
                    }
                    serde_json::from_value::<dr::sentinel::Config>(o).map(|c| c.get_pool_config()).map_err(|e| e.to_string())
                }
            };
            match got {
                Err(e) => v.fail("config-deserialize-failed", format!("flavour {} with pool {:?}: {}", flavour % 3, with_pool, e)),
                Ok(p) => {
                    if !same_pool(&p, &expect) {
                        v.fail("config-pool-section", format!("pool section read as {:?}, expected {:?}", p, expect));
                    }
                }
            }
        }
        RedisCase::Listeners { sentinel, named, via_urls } => listeners(v, *sentinel, *named, *via_urls),
    }
}

fn judge(v: &mut Verdict, res: Result<(), dr::ConfigError>, reference: Result<(), redis::RedisError>) {
    match (res, reference) {
        (Ok(()), Ok(())) => v.label("accepted"),
        (Err(dr::ConfigError::Redis(_)), Err(_)) => {
            v.nontrivial = true;
            v.label("rejected");
        }
        (Err(e), Err(_)) => v.fail("wrong-error-kind", format!("malformed configuration reported as {:?}", e)),
        (Err(e), Ok(())) => v.fail("valid-config-rejected", format!("builder() failed with {:?} but the redis crate accepts the same parameters", e)),
        (Ok(()), Err(e)) => v.fail("invalid-config-accepted", format!("builder() succeeded but the redis crate rejects the same parameters: {}", e)),
    }
}

/// Which loopback servers does a cluster / sentinel pool contact?
fn listeners(v: &mut Verdict, sentinel: bool, named: u16, via_urls: bool) {
    const N: usize = 12;
    v.label(if sentinel { "listeners-sentinel" } else { "listeners-cluster" });
    v.nontrivial = true;
    let named = if named & 0xfff == 0 { 1 } else { named & 0xfff };
    if named.count_ones() > 8 {
        v.label("listeners:more-than-8-named");
    }
    let rt = tokio::runtime::Builder::new_current_thread().enable_all().build().expect("runtime");
    let outcome: Result<(Vec<usize>, Vec<u16>), String> = rt.block_on(async move {
        let mut counts: Vec<Arc<AtomicUsize>> = vec![];
        let mut ports: Vec<u16> = vec![];
        for _ in 0..N {
            let l = tokio::net::TcpListener::bind("127.0.0.1:0").await.map_err(|e| e.to_string())?;
            ports.push(l.local_addr().map_err(|e| e.to_string())?.port());
            let c = Arc::new(AtomicUsize::new(0));
            counts.push(c.clone());
            tokio::spawn(async move {
                loop {
                    match l.accept().await {
                        Ok((s, _)) => {
                            c.fetch_add(1, Ordering::SeqCst);
                            drop(s);
                        }
                        Err(_) => break,
                    }
                }
            });
        }
        let chosen: Vec<u16> = (0..N).filter(|i| named >> i & 1 == 1).map(|i| ports[i]).collect();
        let urls: Vec<String> = chosen.iter().map(|p| format!("redis://127.0.0.1:{}/", p)).collect();
        let conns: Vec<dr::ConnectionInfo> = chosen
            .iter()
            .map(|p| dr::ConnectionInfo {
                addr: dr::ConnectionAddr::Tcp("127.0.0.1".into(), *p),
                redis: dr::RedisConnectionInfo::default(),
            })
            .collect();
        if sentinel {
            let cfg = dr::sentinel::Config {
                urls: if via_urls { Some(urls) } else { None },
                server_type: dr::sentinel::SentinelServerType::Master,
                master_name: "mymaster".into(),
                connections: if via_urls { None } else { Some(conns) },
                node_connection_info: None,
                pool: Some(PoolConfig::new(1)),
            };
            let pool = cfg.create_pool(Some(dr::Runtime::Tokio1)).map_err(|e| format!("create_pool: {}", e))?;
            let _ = tokio::time::timeout(Duration::from_millis(1500), pool.get()).await;
        } else {
            let cfg = dr::cluster::Config {
                urls: if via_urls { Some(urls) } else { None },
                connections: if via_urls { None } else { Some(conns) },
                pool: Some(PoolConfig::new(1)),
                read_from_replicas: false,
            };
            let pool = cfg.create_pool(Some(dr::Runtime::Tokio1)).map_err(|e| format!("create_pool: {}", e))?;
            let _ = tokio::time::timeout(Duration::from_millis(1500), pool.get()).await;
        }
        tokio::time::sleep(Duration::from_millis(20)).await;
        Ok((counts.iter().map(|c| c.load(Ordering::SeqCst)).collect(), ports))
    });
    match outcome {
        Err(e) => v.label(&format!("listeners-skipped:{}", e.chars().take(40).collect::<String>())),
        Ok((counts, ports)) => {
            for i in 0..N {
                let is_named = named >> i & 1 == 1;
                if !is_named && counts[i] > 0 {
                    v.fail(
                        "unnamed-server-contacted",
                        format!("listener {} (port {}) was not named in the config but received {} connections (named mask {:012b}, counts {:?})", i, ports[i], counts[i], named, counts),
                    );
                }
                if is_named && counts[i] == 0 {
                    v.fail(
                        "named-server-not-contacted",
                        format!("listener {} (port {}) was named in the config but never contacted (named mask {:012b}, counts {:?})", i, ports[i], named, counts),
                    );
                }
            }
        }
    }
}

// ------------------------------------------------------------------ generation

fn word() -> BoxedStrategy<String> {
    prop_oneof![
        5 => prop::sample::select(vec!["", "default", "user1", "p@ss:word/1", "with space", "ünï", "%41", "a".repeat(30).leak() as &str]).prop_map(|s| s.to_string()),
        2 => "[ -~]{0,10}",
        1 => "\\PC{0,6}",
    ]
    .boxed()
}

fn conn() -> BoxedStrategy<ConnCase> {
    let addr = prop_oneof![
        4 => (prop::sample::select(vec!["127.0.0.1", "localhost", "redis.example.com", "::1", ""]), any::<u16>()).prop_map(|(h, p)| AddrCase::Tcp(h.to_string(), p)),
        1 => (prop::sample::select(vec!["127.0.0.1", "tls.example.com"]), any::<u16>(), any::<bool>()).prop_map(|(h, p, i)| AddrCase::TcpTls { host: h.to_string(), port: p, insecure: i }),
        2 => prop::sample::select(vec!["/tmp/redis.sock", "/var/run/redis/redis.sock", "relative.sock", ""]).prop_map(|p| AddrCase::Unix(p.to_string())),
    ];
    (
        addr,
        prop_oneof![3 => Just(0i64), 2 => 0i64..16, 1 => any::<i64>()],
        prop::option::weighted(0.4, word()),
        prop::option::weighted(0.4, word()),
        any::<bool>(),
    )
        .prop_map(|(addr, db, username, password, resp3)| ConnCase {
            addr,
            db,
            username,
            password,
            resp3,
        })
        .boxed()
}

fn penc(s: &str) -> String {
    let mut o = String::new();
    for b in s.bytes() {
        if b.is_ascii_alphanumeric() || b"-._~".contains(&b) {
            o.push(b as char);
        } else {
            o.push_str(&format!("%{:02X}", b));
        }
    }
    o
}

fn rurl() -> BoxedStrategy<String> {
    let good = (
        prop::sample::select(vec!["redis://", "rediss://", "redis+unix://", "unix://", "valkey://"]),
        prop::option::of((word(), prop::option::of(word()))),
        prop::sample::select(vec!["127.0.0.1", "localhost", "redis.example.com", "[::1]", "/tmp/redis.sock", ""]),
        prop::option::of(any::<u16>()),
        prop::option::of(prop_oneof![Just("0".to_string()), Just("3".to_string()), Just("15".to_string()), Just("x".to_string()), Just("-1".to_string())]),
        prop::option::of(prop::sample::select(vec!["protocol=resp3", "protocol=resp2", "protocol=9", "db=2", "user=u&pass=p", "insecure"])),
    )
        .prop_map(|(scheme, ui, host, port, db, q)| {
            let mut s = scheme.to_string();
            if let Some((u, p)) = ui {
                s.push_str(&penc(&u));
                if let Some(p) = p {
                    s.push(':');
                    s.push_str(&penc(&p));
                }
                s.push('@');
            }
            s.push_str(host);
            if let Some(p) = port {
                s.push_str(&format!(":{}", p));
            }
            if let Some(d) = db {
                s.push('/');
                s.push_str(&d);
            }
            if let Some(q) = q {
                s.push('?');
                s.push_str(q);
            }
            s
        });
    prop_oneof![
        6 => good,
        1 => "\\PC{0,20}",
        1 => prop::sample::select(vec!["", "redis", "redis:/", "http://x", "redis://:::", "redis://host:99999", "redis://%zz@h"]).prop_map(|s| s.to_string()),
    ]
    .boxed()
}

fn node() -> BoxedStrategy<NodeCase> {
    (0u8..3, prop::option::of((0i64..16, prop::option::of(word()), prop::option::of(word()), any::<bool>())))
        .prop_map(|(tls, info)| NodeCase { tls, info })
        .boxed()
}

fn d(full: bool) -> BoxedStrategy<Option<(u64, u32)>> {
    let secs: BoxedStrategy<u64> = if full {
        prop_oneof![3 => 0u64..100, 1 => any::<u64>(), 1 => Just(u64::MAX), 1 => Just(0u64)].boxed()
    } else {
        prop_oneof![3 => 0u64..100, 1 => 0u64..(1u64 << 31)].boxed()
    };
    prop::option::weighted(0.6, (secs, prop_oneof![2 => Just(0u32), 2 => 0u32..1_000_000_000, 1 => Just(999_999_999u32)])).boxed()
}

fn poolcase(full: bool) -> BoxedStrategy<PoolCase> {
    (prop_oneof![3 => 0u32..64, 1 => any::<u32>()], d(full), d(full), d(full), any::<bool>())
        .prop_map(|(max_size, wait, create, recycle, lifo)| PoolCase {
            max_size,
            wait,
            create,
            recycle,
            lifo,
        })
        .boxed()
}

pub fn case(listeners: bool) -> BoxedStrategy<RedisCase> {
    if listeners {
        return (any::<bool>(), prop_oneof![2 => 1u16..16, 1 => 1u16..4096, 1 => (any::<u16>(), any::<u16>()).prop_map(|(a, b)| 0xfff & (a | b | 0x100))], any::<bool>())
            .prop_map(|(sentinel, named, via_urls)| RedisCase::Listeners { sentinel, named, via_urls })
            .boxed();
    }
    prop_oneof![
        5 => (prop::option::weighted(0.55, rurl()), prop::option::weighted(0.4, conn()), prop::option::of(0u16..512))
            .prop_map(|(url, conn, max_size)| RedisCase::Standalone { url, conn, max_size }),
        3 => (prop::option::weighted(0.55, prop_oneof![8 => prop::collection::vec(rurl(), 0..3), 1 => prop::collection::vec(rurl(), 8..13)]), prop::option::weighted(0.4, prop_oneof![8 => prop::collection::vec(conn(), 0..3), 1 => prop::collection::vec(conn(), 8..13)]), any::<bool>())
            .prop_map(|(urls, conns, read_from_replicas)| RedisCase::Cluster { urls, conns, read_from_replicas }),
        3 => (prop::option::weighted(0.55, prop_oneof![8 => prop::collection::vec(rurl(), 0..3), 1 => prop::collection::vec(rurl(), 8..13)]), prop::option::weighted(0.4, prop_oneof![8 => prop::collection::vec(conn(), 0..3), 1 => prop::collection::vec(conn(), 8..13)]), word(), any::<bool>(), prop::option::of(node()))
            .prop_map(|(urls, conns, master, replica, node)| RedisCase::Sentinel { urls, conns, master, replica, node }),
        3 => (conn(), any::<bool>()).prop_map(|(conn, from_redis)| RedisCase::RoundTrip { conn, from_redis }),
        1 => (node(), any::<bool>()).prop_map(|(node, from_redis)| RedisCase::NodeRoundTrip { node, from_redis }),
        3 => (poolcase(true), any::<bool>(), any::<bool>()).prop_map(|(pool, omit_timeouts, omit_queue_mode)| RedisCase::SerdePool { pool, omit_timeouts, omit_queue_mode, env_style: false }),
        2 => (poolcase(false), any::<bool>(), any::<bool>()).prop_map(|(pool, omit_timeouts, omit_queue_mode)| RedisCase::SerdePool { pool, omit_timeouts, omit_queue_mode, env_style: true }),
        1 => (prop::option::of(poolcase(true)), any::<u8>()).prop_map(|(with_pool, flavour)| RedisCase::SerdeConfig { with_pool, flavour }),
    ]
    .boxed()
}

/// Byte-level decoding for the libFuzzer target: a tag byte, then 0xff-separated URLs.
pub fn decode(data: &[u8]) -> RedisCase {
    let tag = data.first().copied().unwrap_or(0);
    let rest = if data.len() > 1 { &data[1..] } else { &[][..] };
    let urls: Vec<String> = rest.split(|b| *b == 0xff).map(|c| String::from_utf8_lossy(c).to_string()).collect();
    if tag % 4 == 3 {
        // connection-description round trips built from the bytes
        let text = |i: usize| urls.get(i).cloned();
        let b = |i: usize| rest.get(i).copied().unwrap_or(0);
        let addr = match b(0) % 3 {
            0 => AddrCase::Tcp(text(0).unwrap_or_default(), u16::from_be_bytes([b(1), b(2)])),
            1 => AddrCase::TcpTls {
                host: text(0).unwrap_or_default(),
                port: u16::from_be_bytes([b(1), b(2)]),
                insecure: b(3) & 1 == 1,
            },
            _ => AddrCase::Unix(text(0).unwrap_or_default()),
        };
        return RedisCase::RoundTrip {
            conn: ConnCase {
                addr,
                db: i64::from(b(4)) - 8,
                username: if b(5) & 1 == 1 { text(1) } else { None },
                password: if b(5) & 2 == 2 { text(2) } else { None },
                resp3: b(5) & 4 == 4,
            },
            from_redis: tag & 8 != 0,
        };
    }
    match tag % 3 {
        0 => RedisCase::Standalone {
            url: urls.first().cloned(),
            conn: None,
            max_size: None,
        },
        1 => RedisCase::Cluster {
            urls: Some(urls),
            conns: None,
            read_from_replicas: tag & 4 != 0,
        },
        _ => RedisCase::Sentinel {
            urls: Some(urls),
            conns: None,
            master: "mymaster".into(),
            replica: tag & 4 != 0,
            node: None,
        },
    }
}
