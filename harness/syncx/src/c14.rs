//! C14: SyncWrapper keeps blocking work and destruction off the async thread.

use std::collections::BTreeSet;
use std::future::Future;
use std::pin::Pin;
use std::sync::{Arc, Condvar, Mutex};
use std::task::{Context, Poll};
use std::thread::ThreadId;
use std::time::{Duration, Instant};

use deadpool::Runtime;
use deadpool_sync::{InteractError, SyncWrapper};
use proptest::prelude::*;
use proptest::strategy::BoxedStrategy;
use serde::{Deserialize, Serialize};
use vcore::pick;
use vcore::sched::{lock, Injected};

#[derive(Clone, Copy, Debug, Serialize, Deserialize, PartialEq, Eq, Hash)]
pub enum Kind {
    Ret,
    Panic,
    /// blocks until the gate is released, then returns
    Gated(u8),
    /// blocks until the gate is released, then panics
    GatedPanic(u8),
}

#[derive(Clone, Copy, Debug, Serialize, Deserialize, PartialEq, Eq, Hash)]
pub enum Step {
    Interact { kind: Kind },
    /// await the k-th outstanding interact (skipped while its gate is closed)
    Await { k: u8 },
    /// drop the future of the k-th outstanding interact
    Cancel { k: u8 },
    Release { gate: u8 },
    DropWrapper,
    /// the wrapper is owned by a task that panics: dropped while that thread unwinds
    PanicDrop,
    CheckPoison,
}

#[derive(Clone, Debug, Serialize, Deserialize, PartialEq, Eq, Hash)]
pub struct Case {
    pub multi_thread: bool,
    pub blocking_threads: u8,
    pub steps: Vec<Step>,
}

#[derive(Clone, Debug)]
struct ClosureRec {
    thread: ThreadId,
    begin: u64,
    end: Option<u64>,
}

#[derive(Default)]
struct W {
    stamp: u64,
    ctor: Vec<ThreadId>,
    closures: Vec<ClosureRec>,
    dtor: Vec<(ThreadId, u64)>,
    async_threads: BTreeSet<String>,
    trace: Vec<String>,
    /// closures that are about to panic while holding the value (ground truth for poisoning)
    panics: u32,
}

struct World {
    w: Mutex<W>,
    gates: Vec<(Mutex<bool>, Condvar)>,
}

impl World {
    fn stamp(&self) -> u64 {
        let mut w = lock(&self.w);
        w.stamp += 1;
        w.stamp
    }
}

struct Probe {
    world: Arc<World>,
}

impl Drop for Probe {
    fn drop(&mut self) {
        let mut w = lock(&self.world.w);
        w.stamp += 1;
        let s = w.stamp;
        w.dtor.push((std::thread::current().id(), s));
        w.trace.push(format!("destructor on {:?} at {}", std::thread::current().id(), s));
    }
}

/// records the thread of every poll of a harness future
struct Tracked<F> {
    inner: Pin<Box<F>>,
    world: Arc<World>,
}

impl<F: Future> Future for Tracked<F> {
    type Output = F::Output;
    fn poll(mut self: Pin<&mut Self>, cx: &mut Context<'_>) -> Poll<F::Output> {
        lock(&self.world.w).async_threads.insert(format!("{:?}", std::thread::current().id()));
        self.inner.as_mut().poll(cx)
    }
}

fn tracked<F: Future>(world: &Arc<World>, f: F) -> Tracked<F> {
    Tracked {
        inner: Box::pin(f),
        world: world.clone(),
    }
}

struct EndGuard {
    world: Arc<World>,
    idx: usize,
}

impl Drop for EndGuard {
    fn drop(&mut self) {
        let mut w = lock(&self.world.w);
        w.stamp += 1;
        let s = w.stamp;
        w.closures[self.idx].end = Some(s);
        w.trace.push(format!("closure {} ends at {}", self.idx, s));
    }
}

pub struct Verdict {
    pub violation: Option<(String, String)>,
    pub inconclusive: Option<String>,
    pub nontrivial: bool,
    pub labels: Vec<String>,
    pub trace: Vec<String>,
    pub step: usize,
}

struct Outstanding {
    handle: tokio::task::JoinHandle<Result<u32, InteractError>>,
    kind: Kind,
    closure_slot: Arc<Mutex<Option<usize>>>,
    panics_at_start: u32,
}

pub fn run(case: &Case) -> Verdict {
    let world = Arc::new(World {
        w: Mutex::new(W::default()),
        gates: (0..4).map(|_| (Mutex::new(false), Condvar::new())).collect(),
    });
    let mut v = Verdict {
        violation: None,
        inconclusive: None,
        nontrivial: false,
        labels: vec![],
        trace: vec![],
        step: 0,
    };
    let rt = if case.multi_thread {
        tokio::runtime::Builder::new_multi_thread()
            .worker_threads(2)
            .max_blocking_threads(case.blocking_threads.max(1) as usize)
            .enable_all()
            .build()
    } else {
        tokio::runtime::Builder::new_current_thread()
            .max_blocking_threads(case.blocking_threads.max(1) as usize)
            .enable_all()
            .build()
    }
    .expect("runtime");
    // the driver thread is an async thread too
    lock(&world.w).async_threads.insert(format!("{:?}", std::thread::current().id()));
    let w2 = world.clone();
    let steps = case.steps.clone();
    let multi = case.multi_thread;
    let body = async move { interp(w2, steps).await };
    let out = if multi {
        let h = rt.spawn(tracked(&world, body));
        rt.block_on(tracked(&world, async move { h.await }))
            .unwrap_or_else(|e| Outcome::failed("harness", format!("interpreter task failed: {}", e)))
    } else {
        rt.block_on(tracked(&world, body))
    };
    // make sure nothing is left blocked
    for g in &world.gates {
        *lock(&g.0) = true;
        g.1.notify_all();
    }
    rt.shutdown_timeout(Duration::from_secs(5));
    v.violation = out.violation;
    v.inconclusive = out.inconclusive;
    v.nontrivial = out.nontrivial;
    v.labels = out.labels;
    v.step = out.step;
    v.trace = lock(&world.w).trace.clone();
    v
}

struct Outcome {
    violation: Option<(String, String)>,
    inconclusive: Option<String>,
    nontrivial: bool,
    labels: Vec<String>,
    step: usize,
}

impl Outcome {
    fn failed(o: &str, d: String) -> Self {
        Outcome {
            violation: Some((o.into(), d)),
            inconclusive: None,
            nontrivial: false,
            labels: vec![],
            step: 0,
        }
    }
}

async fn pause() {
    for _ in 0..5 {
        tokio::task::yield_now().await;
    }
    tokio::time::sleep(Duration::from_micros(300)).await;
}

async fn interp(world: Arc<World>, steps: Vec<Step>) -> Outcome {
    let mut out = Outcome {
        violation: None,
        inconclusive: None,
        nontrivial: false,
        labels: vec![],
        step: 0,
    };
    macro_rules! fail {
        ($o:expr, $($a:tt)*) => {{
            if out.violation.is_none() {
                out.violation = Some(($o.to_string(), format!($($a)*)));
            }
            return out;
        }};
    }
    let wc = world.clone();
    let wrapper = match SyncWrapper::new(Runtime::Tokio1, move || {
        lock(&wc.w).ctor.push(std::thread::current().id());
        Ok::<Probe, ()>(Probe { world: wc.clone() })
    })
    .await
    {
        Ok(w) => w,
        Err(()) => fail!("harness", "constructor failed"),
    };
    let mut wrapper: Option<Arc<SyncWrapper<Probe>>> = Some(Arc::new(wrapper));
    let mut outstanding: Vec<Outstanding> = vec![];
    let mut poisoned_expected = false;
    let mut released = [false; 4];
    let mut used = [false; 4];
    let mut hung: Option<String> = None;

    for (si, step) in steps.iter().enumerate() {
        out.step = si;
        lock(&world.w).trace.push(format!("Step {} {:?}", si, step));
        match *step {
            Step::Interact { kind } => {
                let Some(w) = wrapper.clone() else { continue };
                if outstanding.len() >= 5 {
                    continue;
                }
                if let Kind::Gated(g) | Kind::GatedPanic(g) = kind {
                    used[g as usize % 4] = true;
                }
                let world2 = world.clone();
                let slot: Arc<Mutex<Option<usize>>> = Arc::new(Mutex::new(None));
                let slot2 = slot.clone();
                let closure = move |_p: &mut Probe| -> u32 {
                    let idx = {
                        let mut g = lock(&world2.w);
                        g.stamp += 1;
                        let s = g.stamp;
                        g.closures.push(ClosureRec {
                            thread: std::thread::current().id(),
                            begin: s,
                            end: None,
                        });
                        let idx = g.closures.len() - 1;
                        g.trace.push(format!("closure {} ({:?}) begins on {:?} at {}", idx, kind, std::thread::current().id(), s));
                        idx
                    };
                    *lock(&slot2) = Some(idx);
                    let _end = EndGuard {
                        world: world2.clone(),
                        idx,
                    };
                    match kind {
                        Kind::Ret => 7,
                        Kind::Panic => {
                            lock(&world2.w).panics += 1;
                            std::panic::panic_any(Injected)
                        }
                        Kind::Gated(g) | Kind::GatedPanic(g) => {
                            let gate = &world2.gates[g as usize % 4];
                            let mut open = lock(&gate.0);
                            while !*open {
                                open = gate.1.wait(open).unwrap_or_else(|e| e.into_inner());
                            }
                            drop(open);
                            if matches!(kind, Kind::GatedPanic(_)) {
                                lock(&world2.w).panics += 1;
                                std::panic::panic_any(Injected);
                            }
                            9
                        }
                    }
                };
                let handle = tokio::spawn(tracked(&world, async move { w.interact(closure).await }));
                let panics_at_start = lock(&world.w).panics;
                outstanding.push(Outstanding {
                    handle,
                    kind,
                    closure_slot: slot,
                    panics_at_start,
                });
                pause().await;
            }
            Step::Await { k } => {
                let Some(i) = pick(k, outstanding.len()) else { continue };
                // a closure behind a closed gate (even one whose future was cancelled) may occupy
                // the blocking thread this call needs: only await when every used gate is open
                if (0..4).any(|g| used[g] && !released[g]) {
                    continue;
                }
                let o = outstanding.remove(i);
                let r = match tokio::time::timeout(Duration::from_secs(20), o.handle).await {
                    Err(_) => {
                        // every gate this history used is open, so no closure of ours blocks: if the
                        // value is never destroyed either, the settle phase reports that; otherwise
                        // the run is inconclusive
                        hung = Some("an interact() did not finish within 20 s".to_string());
                        break;
                    }
                    Ok(Err(e)) => fail!("harness", "interact task failed: {}", e),
                    Ok(Ok(r)) => r,
                };
                let ran = lock(&o.closure_slot).is_some();
                match (o.kind, r) {
                    (Kind::Ret, Ok(7)) | (Kind::Gated(_), Ok(9)) => {
                        if o.panics_at_start > 0 {
                            fail!("poison-ignored", "interact succeeded although a closure had panicked on this wrapper before the call was made");
                        }
                        out.labels.push("interact:ok".into());
                    }
                    (_, Err(InteractError::Panic(_))) => {
                        let own_panic = matches!(o.kind, Kind::Panic | Kind::GatedPanic(_)) && ran;
                        let panics = lock(&world.w).panics;
                        if !own_panic && panics == 0 {
                            fail!("unexpected-panic-result", "interact({:?}) reported Panic although no closure had panicked", o.kind);
                        }
                        let _ = poisoned_expected;
                        out.labels.push("interact:panic".into());
                        if let Some(w) = &wrapper {
                            if !w.is_mutex_poisoned() {
                                fail!("poison-not-reported", "is_mutex_poisoned() is false after a closure panicked");
                            }
                        }
                    }
                    (k, Ok(val)) => fail!("panic-swallowed", "interact({:?}) returned Ok({})", k, val),
                    (k, Err(InteractError::Aborted)) => fail!("unexpected-aborted", "interact({:?}) reported Aborted while the wrapper is alive", k),
                }
            }
            Step::Cancel { k } => {
                let Some(i) = pick(k, outstanding.len()) else { continue };
                let o = outstanding.remove(i);
                let began = lock(&o.closure_slot).is_some();
                let ended = lock(&o.closure_slot).map(|idx| lock(&world.w).closures[idx].end.is_some()).unwrap_or(false);
                o.handle.abort();
                let _ = o.handle.await;
                if began && !ended {
                    out.labels.push("cancel:while-closure-runs".into());
                    out.nontrivial = true;
                } else if !began {
                    out.labels.push("cancel:before-closure-starts".into());
                } else {
                    out.labels.push("cancel:after-closure-ended".into());
                }
                if matches!(o.kind, Kind::Panic | Kind::GatedPanic(_)) {
                    // it may panic later (or already has): from then on poison is legitimate
                    poisoned_expected = true;
                }
            }
            Step::Release { gate } => {
                let g = gate as usize % 4;
                released[g] = true;
                *lock(&world.gates[g].0) = true;
                world.gates[g].1.notify_all();
                pause().await;
            }
            Step::DropWrapper | Step::PanicDrop => {
                if wrapper.is_none() {
                    continue;
                }
                // the borrow checker only allows this once every interact future is gone
                let running = {
                    let w = lock(&world.w);
                    w.closures.iter().any(|c| c.end.is_none())
                };
                let queued = outstanding.iter().any(|o| lock(&o.closure_slot).is_none());
                for o in outstanding.drain(..) {
                    if matches!(o.kind, Kind::Panic | Kind::GatedPanic(_)) {
                        poisoned_expected = true;
                    }
                    o.handle.abort();
                    let _ = o.handle.await;
                }
                if running || queued {
                    out.labels.push(if running { "drop:while-closure-runs" } else { "drop:while-closure-queued" }.into());
                    out.nontrivial = true;
                }
                let w = wrapper.take().unwrap();
                let unwinding = matches!(step, Step::PanicDrop);
                if unwinding {
                    out.labels.push("drop:by-unwinding".into());
                }
                if unwinding && !running {
                    let world2 = world.clone();
                    let h = tokio::spawn(tracked(&world, async move {
                        let _owned = w;
                        lock(&world2.w).trace.push(format!("wrapper owned by a task that panics on {:?}", std::thread::current().id()));
                        std::panic::panic_any(Injected);
                    }));
                    let _ = h.await;
                } else if running {
                    // A closure is still using the value (possibly behind a closed gate). Dropping the
                    // wrapper must not wait for it: the drop is made on a thread of its own, which
                    // then counts as "the thread that dropped the wrapper", and has to return.
                    let (tx, rx) = std::sync::mpsc::channel::<()>();
                    let world3 = world.clone();
                    let handle = tokio::runtime::Handle::current();
                    let th = std::thread::spawn(move || {
                        let _ctx = handle.enter();
                        {
                            let mut g = lock(&world3.w);
                            g.async_threads.insert(format!("{:?}", std::thread::current().id()));
                            g.trace.push(format!(
                                "wrapper dropped on {:?} (a thread of its own{})",
                                std::thread::current().id(),
                                if unwinding { ", while it unwinds" } else { "" }
                            ));
                        }
                        // reports when the wrapper's drop has returned, also during unwinding
                        struct Done(std::sync::mpsc::Sender<()>);
                        impl Drop for Done {
                            fn drop(&mut self) {
                                let _ = self.0.send(());
                            }
                        }
                        let _done = Done(tx);
                        let _owned = w; // dropped before `_done`
                        if unwinding {
                            std::panic::panic_any(Injected);
                        }
                    });
                    let mut returned = false;
                    for _ in 0..3000 {
                        if rx.try_recv().is_ok() {
                            returned = true;
                            break;
                        }
                        tokio::time::sleep(Duration::from_millis(1)).await;
                    }
                    if !returned {
                        for g in 0..4 {
                            *lock(&world.gates[g].0) = true;
                            world.gates[g].1.notify_all();
                        }
                        let _ = th.join();
                        fail!(
                            "drop-blocks-while-closure-runs",
                            "dropping the wrapper did not return within 3 s while a closure of a cancelled interact() was still running: the dropping thread waits for blocking work"
                        );
                    }
                    let _ = th.join();
                    out.labels.push("drop:on-own-thread-while-closure-runs".into());
                } else {
                    lock(&world.w).trace.push(format!("wrapper dropped on {:?}", std::thread::current().id()));
                    drop(w);
                }
                pause().await;
            }
            Step::CheckPoison => {
                if let Some(w) = &wrapper {
                    // a closure counts its panic just before it unwinds, so give the unwinding a moment
                    let before = lock(&world.w).panics;
                    pause().await;
                    let p = w.is_mutex_poisoned();
                    let after = lock(&world.w).panics;
                    if p && after == 0 {
                        fail!("poisoned-without-panic", "is_mutex_poisoned() is true although no closure panicked");
                    }
                    if !p && before > 0 {
                        // the panic count is raised before the unwind releases the mutex; poll a little
                        let mut ok = false;
                        for _ in 0..5000 {
                            tokio::time::sleep(Duration::from_millis(1)).await;
                            if w.is_mutex_poisoned() {
                                ok = true;
                                break;
                            }
                        }
                        if !ok {
                            fail!("poison-not-reported", "is_mutex_poisoned() stays false after a closure panicked");
                        }
                    }
                }
            }
        }
    }
    // ---- settle: release everything, finish everything, drop the wrapper, wait for the destructor
    for g in 0..4 {
        *lock(&world.gates[g].0) = true;
        world.gates[g].1.notify_all();
    }
    for o in outstanding.drain(..) {
        let _ = tokio::time::timeout(Duration::from_secs(20), o.handle).await;
    }
    if let Some(w) = wrapper.take() {
        drop(w);
    }
    let t0 = Instant::now();
    loop {
        let done = {
            let w = lock(&world.w);
            !w.dtor.is_empty() && w.closures.iter().all(|c| c.end.is_some())
        };
        if done {
            break;
        }
        if t0.elapsed() > Duration::from_secs(20) {
            let w = lock(&world.w);
            if w.dtor.is_empty() {
                // the value was never destroyed: with every gate open and every call finished this is a leak
                drop(w);
                fail!("destructor-never-ran", "the wrapped value was not destroyed within 20 s after the wrapper was dropped and every closure had finished");
            }
            out.inconclusive = Some(hung.clone().unwrap_or_else(|| "closures did not finish within 20 s".into()));
            return out;
        }
        tokio::time::sleep(Duration::from_millis(1)).await;
    }
    if let Some(h) = hung {
        out.inconclusive = Some(h);
        return out;
    }
    // give a second destructor (double drop) a chance to show up
    pause().await;
    let w = lock(&world.w);
    let asyncs = w.async_threads.clone();
    let is_async = |t: &ThreadId| asyncs.contains(&format!("{:?}", t));
    for t in &w.ctor {
        if is_async(t) {
            fail!("constructed-on-async-thread", "the wrapped value was created on thread {:?}, which polls async code", t);
        }
    }
    for (i, c) in w.closures.iter().enumerate() {
        if is_async(&c.thread) {
            fail!("closure-on-async-thread", "closure {} ran on thread {:?}, which polls async code", i, c.thread);
        }
    }
    if w.dtor.len() != 1 {
        fail!("destructor-count", "the wrapped value's destructor ran {} times", w.dtor.len());
    }
    let (dt, ds) = w.dtor[0];
    if is_async(&dt) {
        fail!("destroyed-on-async-thread", "the wrapped value was destroyed on thread {:?}, which awaited or dropped the wrapper", dt);
    }
    for (i, c) in w.closures.iter().enumerate() {
        let end = c.end.unwrap_or(u64::MAX);
        if ds > c.begin && ds < end {
            fail!("destroyed-under-closure", "the destructor ran at {} while closure {} was using the value ({}..{})", ds, i, c.begin, end);
        }
        if ds < c.begin {
            fail!("closure-after-destruction", "closure {} began at {} after the value was destroyed at {}", i, c.begin, ds);
        }
    }
    out.labels.push(format!("closures:{}", w.closures.len().min(4)));
    drop(w);
    out
}

pub fn case(thorough: bool) -> BoxedStrategy<Case> {
    let maxlen = if thorough { 24 } else { 14 };
    let kind = prop_oneof![
        4 => Just(Kind::Ret),
        2 => Just(Kind::Panic),
        4 => (0u8..3).prop_map(Kind::Gated),
        1 => (0u8..3).prop_map(Kind::GatedPanic),
    ];
    let step = prop_oneof![
        8 => kind.prop_map(|kind| Step::Interact { kind }),
        4 => any::<u8>().prop_map(|k| Step::Await { k }),
        4 => any::<u8>().prop_map(|k| Step::Cancel { k }),
        4 => (0u8..3).prop_map(|gate| Step::Release { gate }),
        2 => Just(Step::DropWrapper),
        1 => Just(Step::PanicDrop),
        1 => Just(Step::CheckPoison),
    ];
    (any::<bool>(), prop_oneof![Just(1u8), Just(2u8), Just(4u8)], prop::collection::vec(step, 1..=maxlen))
        .prop_map(|(multi_thread, blocking_threads, steps)| Case {
            multi_thread,
            blocking_threads,
            steps,
        })
        .boxed()
}

// ------------------------------------------------------------------ drop race

/// The wrapper is dropped at (about) the moment a cancelled closure finishes: many
/// rounds with a swept closure duration. A targeted stress for destruction paths that
/// depend on who lets go of the value last; the oracle is the same thread identity check.
#[derive(Clone, Debug, Serialize, Deserialize, PartialEq, Eq, Hash)]
pub struct RaceCase {
    pub rounds: u16,
    pub multi_thread: bool,
    pub spin_unit: u16,
}

pub fn race_case(thorough: bool) -> BoxedStrategy<RaceCase> {
    let rounds = if thorough { 20000u16 } else { 3000u16 };
    (Just(rounds), any::<bool>(), 5u16..200)
        .prop_map(|(rounds, multi_thread, spin_unit)| RaceCase {
            rounds,
            multi_thread,
            spin_unit,
        })
        .boxed()
}

pub fn run_race(case: &RaceCase) -> Verdict {
    let mut v = Verdict {
        violation: None,
        inconclusive: None,
        nontrivial: true,
        labels: vec!["drop-race".into()],
        trace: vec![],
        step: 0,
    };
    let rt = if case.multi_thread {
        tokio::runtime::Builder::new_multi_thread().worker_threads(2).max_blocking_threads(4).enable_all().build()
    } else {
        tokio::runtime::Builder::new_current_thread().max_blocking_threads(4).enable_all().build()
    }
    .expect("runtime");
    let world = Arc::new(World {
        w: Mutex::new(W::default()),
        gates: vec![],
    });
    lock(&world.w).async_threads.insert(format!("{:?}", std::thread::current().id()));
    let w2 = world.clone();
    let rounds = case.rounds;
    let unit = case.spin_unit as u64;
    let body = async move {
        for r in 0..rounds {
            {
                let mut w = lock(&w2.w);
                w.ctor.clear();
                w.dtor.clear();
                w.closures.clear();
            }
            let wc = w2.clone();
            let wrapper = match SyncWrapper::new(Runtime::Tokio1, move || Ok::<Probe, ()>(Probe { world: wc.clone() })).await {
                Ok(w) => w,
                Err(()) => return Some(("harness".to_string(), "constructor failed".to_string())),
            };
            let started = Arc::new(std::sync::atomic::AtomicBool::new(false));
            let go = Arc::new(std::sync::atomic::AtomicBool::new(false));
            let (st2, go2) = (started.clone(), go.clone());
            // delay between "closure, finish now" and the drop of the wrapper, swept
            let spins = (r as u64 % 64) * (1 + unit % 3);
            {
                // the interact() future is polled by hand once and then dropped (cancelled)
                // while its closure is running
                let mut fut = Box::pin(wrapper.interact(move |_p: &mut Probe| {
                    st2.store(true, std::sync::atomic::Ordering::SeqCst);
                    while !go2.load(std::sync::atomic::Ordering::Acquire) {
                        std::hint::spin_loop();
                    }
                }));
                let waker = std::task::Waker::from(vcore::sched::WakeFlag::new());
                let mut cx = Context::from_waker(&waker);
                let _ = fut.as_mut().poll(&mut cx);
                let t0 = Instant::now();
                while !started.load(std::sync::atomic::Ordering::SeqCst) {
                    std::hint::spin_loop();
                    if t0.elapsed() > Duration::from_secs(20) {
                        go.store(true, std::sync::atomic::Ordering::Release);
                        return Some(("inconclusive".into(), "closure did not start".into()));
                    }
                }
                drop(fut);
            }
            go.store(true, std::sync::atomic::Ordering::Release);
            for _ in 0..spins {
                std::hint::spin_loop();
            }
            drop(wrapper);
            let t0 = Instant::now();
            loop {
                if !lock(&w2.w).dtor.is_empty() {
                    break;
                }
                tokio::task::yield_now().await;
                if t0.elapsed() > Duration::from_secs(20) {
                    return Some(("destructor-never-ran".into(), format!("round {}: the value was not destroyed within 20 s after the wrapper was dropped", r)));
                }
            }
            let w = lock(&w2.w);
            let (dt, _) = w.dtor[0];
            if w.async_threads.contains(&format!("{:?}", dt)) {
                return Some((
                    "destroyed-on-async-thread".into(),
                    format!("round {} (closure spins {}): the wrapped value was destroyed on thread {:?}, which awaited or dropped the wrapper", r, spins, dt),
                ));
            }
            if w.dtor.len() != 1 {
                return Some(("destructor-count".into(), format!("round {}: destructor ran {} times", r, w.dtor.len())));
            }
        }
        None
    };
    let res = if case.multi_thread {
        let h = rt.spawn(tracked(&world, body));
        rt.block_on(tracked(&world, async move { h.await })).unwrap_or_else(|e| Some(("harness".into(), format!("{}", e))))
    } else {
        rt.block_on(tracked(&world, body))
    };
    rt.shutdown_timeout(Duration::from_secs(5));
    match res {
        Some((o, d)) if o == "inconclusive" => v.inconclusive = Some(d),
        Some((o, d)) => v.violation = Some((o, d)),
        None => {}
    }
    v
}
