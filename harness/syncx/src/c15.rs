//! C15: a connection whose interaction panicked or broke is never reissued
//! (deadpool-sqlite, deadpool-r2d2, deadpool-diesel).

use std::collections::BTreeSet;
use std::sync::{Arc, Condvar, Mutex};
use std::time::Duration;

use deadpool::managed::{Object, PoolError};
use deadpool::Runtime;
use deadpool_sync::SyncWrapper;
use diesel::connection::{AnsiTransactionManager, TransactionManager};
use diesel::{RunQueryDsl, SqliteConnection};
use proptest::prelude::*;
use proptest::strategy::BoxedStrategy;
use serde::{Deserialize, Serialize};
use vcore::pick;
use vcore::sched::{lock, Injected};

#[derive(Clone, Copy, Debug, Serialize, Deserialize, PartialEq, Eq, Hash)]
pub enum Backend {
    Sqlite,
    R2d2,
    DieselFast,
    DieselVerified,
    DieselCustomQuery,
    DieselCustomFn,
}

#[derive(Clone, Copy, Debug, Serialize, Deserialize, PartialEq, Eq, Hash)]
pub enum Step {
    Get,
    Return { h: u8 },
    InteractOk { h: u8 },
    InteractPanic { h: u8 },
    /// a closure that blocks on a gate and then panics; its interact() future is cancelled at once
    GatedPanic { h: u8, gate: u8 },
    /// a closure that blocks on a gate and then leaves the connection broken (r2d2 has_broken
    /// flag / dangling diesel transaction) without panicking; its interact() future is cancelled
    GatedBreak { h: u8, gate: u8 },
    Release { gate: u8 },
    MarkBroken { h: u8, how: u8 },
}

#[derive(Clone, Debug, Serialize, Deserialize, PartialEq, Eq, Hash)]
pub struct Case {
    pub backend: Backend,
    pub max_size: u8,
    pub steps: Vec<Step>,
    /// harmless hooks (returning Ok) of every kind are installed on the pool
    #[serde(default)]
    pub hooks: bool,
    /// the pool has a (generous) recycle timeout and a runtime
    #[serde(default)]
    pub recycle_timeout: bool,
}

// ---------------------------------------------------------------- scripted r2d2 manager

#[derive(Default)]
struct SState {
    next: u64,
    broken: BTreeSet<u64>,
    invalid: BTreeSet<u64>,
}

#[derive(Debug)]
pub struct SErr;
impl std::fmt::Display for SErr {
    fn fmt(&self, f: &mut std::fmt::Formatter<'_>) -> std::fmt::Result {
        write!(f, "scripted validity failure")
    }
}
impl std::error::Error for SErr {}

pub struct SConn {
    serial: u64,
}

#[derive(Clone)]
pub struct SM {
    state: Arc<Mutex<SState>>,
}

impl r2d2::ManageConnection for SM {
    type Connection = SConn;
    type Error = SErr;
    fn connect(&self) -> Result<SConn, SErr> {
        let mut s = lock(&self.state);
        s.next += 1;
        Ok(SConn { serial: s.next })
    }
    fn is_valid(&self, conn: &mut SConn) -> Result<(), SErr> {
        if lock(&self.state).invalid.contains(&conn.serial) {
            Err(SErr)
        } else {
            Ok(())
        }
    }
    fn has_broken(&self, conn: &mut SConn) -> bool {
        lock(&self.state).broken.contains(&conn.serial)
    }
}

// ---------------------------------------------------------------- backends

type Gates = Arc<Vec<(Mutex<bool>, Condvar)>>;

fn wait_gate(gates: &Gates, g: usize) {
    let gate = &gates[g % 4];
    let mut open = lock(&gate.0);
    while !*open {
        open = gate.1.wait(open).unwrap_or_else(|e| e.into_inner());
    }
}

#[derive(diesel::QueryableByName)]
struct Uv {
    #[diesel(sql_type = diesel::sql_types::Integer)]
    user_version: i32,
}

enum PoolX {
    Sqlite(deadpool_sqlite::Pool),
    R2d2(deadpool_r2d2::Pool<deadpool_r2d2::Manager<SM>>),
    Diesel(deadpool_diesel::sqlite::Pool),
}

enum ConnX {
    Sqlite(Object<deadpool_sqlite::Manager>),
    R2d2(Object<deadpool_r2d2::Manager<SM>>),
    Diesel(Object<deadpool_diesel::sqlite::Manager>),
}

fn perr<E: std::fmt::Debug>(e: PoolError<E>) -> String {
    format!("{:?}", e)
}

impl PoolX {
    async fn get(&self) -> Result<ConnX, String> {
        match self {
            PoolX::Sqlite(p) => p.get().await.map(ConnX::Sqlite).map_err(perr),
            PoolX::R2d2(p) => p.get().await.map(ConnX::R2d2).map_err(perr),
            PoolX::Diesel(p) => p.get().await.map(ConnX::Diesel).map_err(perr),
        }
    }
}

async fn id_sqlite(w: &SyncWrapper<deadpool_sqlite::rusqlite::Connection>, fresh: u64) -> Result<u64, String> {
    w.interact(move |c| -> Result<u64, deadpool_sqlite::rusqlite::Error> {
        let v: i64 = c.query_row("PRAGMA user_version", [], |r| r.get(0))?;
        if v == 0 {
            c.execute_batch(&format!("PRAGMA user_version = {}", fresh))?;
            Ok(fresh)
        } else {
            Ok(v as u64)
        }
    })
    .await
    .map_err(|e| format!("interact: {}", e))?
    .map_err(|e| format!("sqlite: {}", e))
}

async fn id_diesel(w: &SyncWrapper<SqliteConnection>, fresh: u64) -> Result<u64, String> {
    w.interact(move |c| -> Result<u64, diesel::result::Error> {
        let v: Uv = diesel::sql_query("SELECT user_version FROM pragma_user_version").get_result(c)?;
        if v.user_version == 0 {
            diesel::sql_query(format!("PRAGMA user_version = {}", fresh)).execute(c)?;
            Ok(fresh)
        } else {
            Ok(v.user_version as u64)
        }
    })
    .await
    .map_err(|e| format!("interact: {}", e))?
    .map_err(|e| format!("diesel: {}", e))
}

impl ConnX {
    async fn identity(&self, fresh: u64) -> Result<u64, String> {
        match self {
            ConnX::Sqlite(o) => id_sqlite(o, fresh).await,
            ConnX::Diesel(o) => id_diesel(o, fresh).await,
            ConnX::R2d2(o) => o.interact(|c| c.serial).await.map_err(|e| format!("interact: {}", e)),
        }
    }
    async fn panic_in(&self) -> bool {
        let r = match self {
            ConnX::Sqlite(o) => o.interact(|_| -> () { std::panic::panic_any(Injected) }).await,
            ConnX::Diesel(o) => o.interact(|_| -> () { std::panic::panic_any(Injected) }).await,
            ConnX::R2d2(o) => o.interact(|_| -> () { std::panic::panic_any(Injected) }).await,
        };
        matches!(r, Err(deadpool_sync::InteractError::Panic(_)))
    }
    /// starts a closure that blocks on the gate and then panics; the interact future is dropped
    /// like gated_panic, but the closure breaks the connection quietly when the gate opens
    async fn gated_break(&self, gates: Gates, g: usize, started: Arc<Mutex<bool>>, sstate: Arc<Mutex<SState>>) {
        let d = Duration::from_millis(3);
        match self {
            ConnX::Sqlite(_) => {}
            ConnX::Diesel(o) => {
                let _ = tokio::time::timeout(
                    d,
                    o.interact(move |c| {
                        *lock(&started) = true;
                        wait_gate(&gates, g);
                        let _ = AnsiTransactionManager::begin_transaction(c);
                    }),
                )
                .await;
            }
            ConnX::R2d2(o) => {
                let _ = tokio::time::timeout(
                    d,
                    o.interact(move |c| {
                        *lock(&started) = true;
                        wait_gate(&gates, g);
                        lock(&sstate).broken.insert(c.serial);
                    }),
                )
                .await;
            }
        }
    }

    async fn gated_panic(&self, gates: Gates, g: usize, started: Arc<Mutex<bool>>) {
        let f = move || {
            *lock(&started) = true;
            wait_gate(&gates, g);
            std::panic::panic_any(Injected)
        };
        let d = Duration::from_millis(3);
        match self {
            ConnX::Sqlite(o) => {
                let _ = tokio::time::timeout(d, o.interact(move |_| -> () { f() })).await;
            }
            ConnX::Diesel(o) => {
                let _ = tokio::time::timeout(d, o.interact(move |_| -> () { f() })).await;
            }
            ConnX::R2d2(o) => {
                let _ = tokio::time::timeout(d, o.interact(move |_| -> () { f() })).await;
            }
        }
    }
}

pub struct Verdict {
    pub violation: Option<(String, String)>,
    pub inconclusive: Option<String>,
    pub nontrivial: bool,
    pub labels: Vec<String>,
    pub trace: Vec<String>,
    pub step: usize,
}

struct HeldX {
    conn: ConnX,
    id: u64,
    /// an unreleased gated closure holds this connection's mutex
    busy_gate: Option<usize>,
}

pub fn run(case: &Case) -> Verdict {
    let mut v = Verdict {
        violation: None,
        inconclusive: None,
        nontrivial: false,
        labels: vec![],
        trace: vec![],
        step: 0,
    };
    let rt = tokio::runtime::Builder::new_current_thread()
        .enable_all()
        .max_blocking_threads(16)
        .build()
        .expect("runtime");
    let gates: Gates = Arc::new((0..4).map(|_| (Mutex::new(false), Condvar::new())).collect());
    let g2 = gates.clone();
    rt.block_on(interp(case, g2, &mut v));
    for g in gates.iter() {
        *lock(&g.0) = true;
        g.1.notify_all();
    }
    rt.shutdown_timeout(Duration::from_secs(5));
    v
}

async fn interp(case: &Case, gates: Gates, v: &mut Verdict) {
    macro_rules! fail {
        ($o:expr, $($a:tt)*) => {{
            if v.violation.is_none() {
                v.violation = Some(($o.to_string(), format!($($a)*)));
            }
            return;
        }};
    }
    let sstate = Arc::new(Mutex::new(SState::default()));
    let custom_fail: Arc<Mutex<BTreeSet<u64>>> = Arc::new(Mutex::new(BTreeSet::new()));
    let max = case.max_size as usize;
    let pool = match case.backend {
        Backend::Sqlite => {
            let cfg = deadpool_sqlite::Config::new(":memory:");
            let mgr = deadpool_sqlite::Manager::from_config(&cfg, Runtime::Tokio1);
            match {
                let mut b = deadpool_sqlite::Pool::builder(mgr).max_size(max);
                if case.recycle_timeout {
                    b = b.runtime(Runtime::Tokio1).recycle_timeout(Some(Duration::from_secs(30)));
                }
                if case.hooks {
                    b = b
                        .post_create(deadpool::managed::Hook::sync_fn(|_, _| Ok(())))
                        .pre_recycle(deadpool::managed::Hook::sync_fn(|_, _| Ok(())))
                        .post_recycle(deadpool::managed::Hook::sync_fn(|_, _| Ok(())));
                }
                b.build()
            } {
                Ok(p) => PoolX::Sqlite(p),
                Err(e) => fail!("build", "{:?}", e),
            }
        }
        Backend::R2d2 => {
            let mgr = deadpool_r2d2::Manager::new(SM { state: sstate.clone() }, Runtime::Tokio1);
            match {
                let mut b = deadpool_r2d2::Pool::builder(mgr).max_size(max);
                if case.recycle_timeout {
                    b = b.runtime(Runtime::Tokio1).recycle_timeout(Some(Duration::from_secs(30)));
                }
                if case.hooks {
                    b = b
                        .post_create(deadpool::managed::Hook::sync_fn(|_, _| Ok(())))
                        .pre_recycle(deadpool::managed::Hook::sync_fn(|_, _| Ok(())))
                        .post_recycle(deadpool::managed::Hook::sync_fn(|_, _| Ok(())));
                }
                b.build()
            } {
                Ok(p) => PoolX::R2d2(p),
                Err(e) => fail!("build", "{:?}", e),
            }
        }
        b => {
            use deadpool_diesel::{ManagerConfig, RecyclingMethod};
            let cf = custom_fail.clone();
            let method: RecyclingMethod<SqliteConnection> = match b {
                Backend::DieselFast => RecyclingMethod::Fast,
                Backend::DieselVerified => RecyclingMethod::Verified,
                Backend::DieselCustomQuery => RecyclingMethod::CustomQuery("SELECT 1".into()),
                _ => RecyclingMethod::CustomFunction(Box::new(move |c: &mut SqliteConnection| {
                    let v: Uv = diesel::sql_query("SELECT user_version FROM pragma_user_version")
                        .get_result(c)
                        .map_err(deadpool_diesel::Error::Ping)?;
                    if lock(&cf).contains(&(v.user_version as u64)) {
                        Err(deadpool_diesel::Error::Ping(diesel::result::Error::NotFound))
                    } else {
                        Ok(())
                    }
                })),
            };
            let mgr = deadpool_diesel::sqlite::Manager::from_config(":memory:", Runtime::Tokio1, ManagerConfig { recycling_method: method });
            match {
                let mut b = deadpool_diesel::sqlite::Pool::builder(mgr).max_size(max);
                if case.recycle_timeout {
                    b = b.runtime(Runtime::Tokio1).recycle_timeout(Some(Duration::from_secs(30)));
                }
                if case.hooks {
                    b = b
                        .post_create(deadpool::managed::Hook::sync_fn(|_, _| Ok(())))
                        .pre_recycle(deadpool::managed::Hook::sync_fn(|_, _| Ok(())))
                        .post_recycle(deadpool::managed::Hook::sync_fn(|_, _| Ok(())));
                }
                b.build()
            } {
                Ok(p) => PoolX::Diesel(p),
                Err(e) => fail!("build", "{:?}", e),
            }
        }
    };
    let pool = Arc::new(pool);
    let mut held: Vec<HeldX> = vec![];
    let mut bad: BTreeSet<u64> = BTreeSet::new();
    // identities that turn bad when a gate is released
    let mut pending_bad: Vec<(usize, u64, Arc<Mutex<bool>>)> = vec![];
    let mut next_id: u64 = 100;
    let mut idle_bad = 0usize; // poisoned / broken connections that went back to the pool

    macro_rules! release {
        ($g:expr) => {{
            let g: usize = $g % 4;
            *lock(&gates[g].0) = true;
            gates[g].1.notify_all();
            tokio::time::sleep(Duration::from_millis(2)).await;
            pending_bad.retain(|(pg, id, started)| {
                if *pg == g {
                    // a closure whose future was dropped before it started may legitimately never run
                    if *lock(started) {
                        bad.insert(*id);
                    }
                    false
                } else {
                    true
                }
            });
            for h in held.iter_mut() {
                if h.busy_gate == Some(g) {
                    h.busy_gate = None;
                }
            }
            tokio::time::sleep(Duration::from_millis(2)).await;
        }};
    }
    macro_rules! get {
        () => {{
            let p2 = pool.clone();
            let mut task = tokio::spawn(async move { p2.get().await });
            let mut res = None;
            for _ in 0..30 {
                match tokio::time::timeout(Duration::from_millis(1), &mut task).await {
                    Ok(r) => {
                        res = Some(r);
                        break;
                    }
                    Err(_) => {}
                }
            }
            if res.is_none() {
                // the recycle check waits for a gated closure on an idle connection: let it go
                v.labels.push("gate-released-during-recycle".into());
                for g in 0..4 {
                    release!(g);
                }
                match tokio::time::timeout(Duration::from_secs(20), &mut task).await {
                    Ok(r) => res = Some(r),
                    Err(_) => {
                        // every gate is open and fewer than max_size connections are out: the pool
                        // no longer serves with its full capacity
                        fail!(
                            "get-hung-with-free-capacity",
                            "pool.get() did not finish within 20 s although only {} of {} connections are checked out and no closure is blocked",
                            held.len(),
                            max
                        );
                    }
                }
            }
            match res.unwrap() {
                Err(e) => fail!("harness", "get task failed: {}", e),
                Ok(Err(e)) => fail!("get-failed", "get() failed although a replacement connection can always be created: {}", e),
                Ok(Ok(c)) => c,
            }
        }};
    }

    for (si, step) in case.steps.iter().enumerate() {
        v.step = si;
        v.trace.push(format!("Step {} {:?}", si, step));
        match *step {
            Step::Get => {
                if held.len() >= max {
                    continue;
                }
                let conn = get!();
                next_id += 1;
                let id = match tokio::time::timeout(Duration::from_secs(20), conn.identity(next_id)).await {
                    Err(_) => {
                        v.inconclusive = Some("identity query did not finish".into());
                        return;
                    }
                    Ok(Err(e)) => fail!("unusable-connection-handed-out", "the connection get() returned cannot run a query: {}", e),
                    Ok(Ok(id)) => id,
                };
                v.trace.push(format!("  handed out identity {}", id));
                if bad.contains(&id) {
                    fail!(
                        "bad-connection-reissued",
                        "get() handed out connection {} on which a closure panicked or which was reported broken / invalid",
                        id
                    );
                }
                if idle_bad > 0 {
                    v.nontrivial = true;
                    v.labels.push("get-with-bad-idle-connection".into());
                }
                held.push(HeldX {
                    conn,
                    id,
                    busy_gate: None,
                });
            }
            Step::Return { h } => {
                let Some(i) = pick(h, held.len()) else { continue };
                let hx = held.remove(i);
                if bad.contains(&hx.id) || pending_bad.iter().any(|p| p.1 == hx.id) {
                    idle_bad += 1;
                }
                drop(hx.conn);
                tokio::task::yield_now().await;
            }
            Step::InteractOk { h } => {
                let Some(i) = pick(h, held.len()) else { continue };
                if held[i].busy_gate.is_some() || bad.contains(&held[i].id) {
                    continue;
                }
                match tokio::time::timeout(Duration::from_secs(20), held[i].conn.identity(0)).await {
                    Ok(Ok(id)) if id == held[i].id => {}
                    other => fail!("identity-changed", "connection {} answered {:?}", held[i].id, other.ok()),
                }
            }
            Step::InteractPanic { h } => {
                let Some(i) = pick(h, held.len()) else { continue };
                if held[i].busy_gate.is_some() {
                    continue;
                }
                let reported = held[i].conn.panic_in().await;
                if !reported {
                    fail!("panic-not-reported", "a panicking closure was not reported as InteractError::Panic");
                }
                bad.insert(held[i].id);
                v.labels.push("closure-panicked".into());
            }
            Step::GatedPanic { h, gate } => {
                let Some(i) = pick(h, held.len()) else { continue };
                let g = gate as usize % 4;
                if held[i].busy_gate.is_some() || bad.contains(&held[i].id) || *lock(&gates[g].0) {
                    continue;
                }
                let started = Arc::new(Mutex::new(false));
                held[i].conn.gated_panic(gates.clone(), g, started.clone()).await;
                // wait until the closure really holds the connection
                for _ in 0..2000 {
                    if *lock(&started) {
                        break;
                    }
                    tokio::time::sleep(Duration::from_millis(1)).await;
                }
                if !*lock(&started) {
                    v.labels.push("cancelled-closure-not-started".into());
                }
                held[i].busy_gate = Some(g);
                pending_bad.push((g, held[i].id, started.clone()));
                v.labels.push("cancelled-interact-with-pending-panic".into());
            }
            Step::GatedBreak { h, gate } => {
                let Some(i) = pick(h, held.len()) else { continue };
                let g = gate as usize % 4;
                if matches!(held[i].conn, ConnX::Sqlite(_)) || held[i].busy_gate.is_some() || bad.contains(&held[i].id) || *lock(&gates[g].0) {
                    continue;
                }
                let started = Arc::new(Mutex::new(false));
                held[i].conn.gated_break(gates.clone(), g, started.clone(), sstate.clone()).await;
                for _ in 0..2000 {
                    if *lock(&started) {
                        break;
                    }
                    tokio::time::sleep(Duration::from_millis(1)).await;
                }
                if !*lock(&started) {
                    v.labels.push("cancelled-closure-not-started".into());
                }
                held[i].busy_gate = Some(g);
                pending_bad.push((g, held[i].id, started.clone()));
                v.labels.push("cancelled-interact-that-breaks-the-connection".into());
            }
            Step::Release { gate } => {
                release!(gate as usize);
            }
            Step::MarkBroken { h, how } => {
                let Some(i) = pick(h, held.len()) else { continue };
                if held[i].busy_gate.is_some() || bad.contains(&held[i].id) {
                    continue;
                }
                let id = held[i].id;
                match (&held[i].conn, case.backend) {
                    (ConnX::R2d2(_), _) => {
                        let mut s = lock(&sstate);
                        if how % 2 == 0 {
                            s.broken.insert(id);
                        } else {
                            s.invalid.insert(id);
                        }
                        bad.insert(id);
                        v.labels.push(if how % 2 == 0 { "marked:has_broken" } else { "marked:is_valid-fails" }.into());
                    }
                    (ConnX::Diesel(o), b) => {
                        if b == Backend::DieselCustomFn && how % 2 == 1 {
                            lock(&custom_fail).insert(id);
                            v.labels.push("marked:custom-function-fails".into());
                        } else {
                            let r = o
                                .interact(|c| AnsiTransactionManager::begin_transaction(c))
                                .await;
                            match r {
                                Ok(Ok(())) => {}
                                other => fail!("harness", "could not open a dangling transaction: {:?}", other.map(|r| r.map_err(|e| e.to_string()))),
                            }
                            v.labels.push("marked:dangling-transaction".into());
                        }
                        bad.insert(id);
                    }
                    (ConnX::Sqlite(_), _) => {}
                }
            }
        }
    }
    // ---- end: everything back, every gate open, the pool serves its full capacity with healthy connections
    for g in 0..4 {
        release!(g);
    }
    for hx in held.drain(..) {
        drop(hx.conn);
    }
    tokio::time::sleep(Duration::from_millis(2)).await;
    let mut probe = vec![];
    for _ in 0..max {
        let conn = get!();
        next_id += 1;
        match tokio::time::timeout(Duration::from_secs(20), conn.identity(next_id)).await {
            Ok(Ok(id)) => {
                if bad.contains(&id) {
                    fail!("bad-connection-reissued", "the end probe received connection {} which is poisoned or broken", id);
                }
            }
            other => fail!("unusable-connection-handed-out", "end probe: {:?}", other.ok()),
        }
        probe.push(conn);
    }
    v.labels.push("probe".into());
    drop(probe);
}

pub fn case(thorough: bool) -> BoxedStrategy<Case> {
    let maxlen = if thorough { 30 } else { 18 };
    let step = prop_oneof![
        10 => Just(Step::Get),
        9 => any::<u8>().prop_map(|h| Step::Return { h }),
        2 => any::<u8>().prop_map(|h| Step::InteractOk { h }),
        4 => any::<u8>().prop_map(|h| Step::InteractPanic { h }),
        2 => (any::<u8>(), 0u8..3).prop_map(|(h, gate)| Step::GatedPanic { h, gate }),
        2 => (any::<u8>(), 0u8..3).prop_map(|(h, gate)| Step::GatedBreak { h, gate }),
        2 => (0u8..3).prop_map(|gate| Step::Release { gate }),
        3 => (any::<u8>(), any::<u8>()).prop_map(|(h, how)| Step::MarkBroken { h, how }),
    ];
    (
        prop_oneof![
            Just(Backend::Sqlite),
            Just(Backend::R2d2),
            Just(Backend::DieselFast),
            Just(Backend::DieselVerified),
            Just(Backend::DieselCustomQuery),
            Just(Backend::DieselCustomFn),
        ],
        1u8..=3,
        prop::collection::vec(step, 1..=maxlen),
        prop::bool::weighted(0.3),
        prop::bool::weighted(0.3),
    )
        .prop_map(|(backend, max_size, steps, hooks, recycle_timeout)| Case { backend, max_size, steps, hooks, recycle_timeout })
        .boxed()
}
