//! E4: SyncWrapper and the pools built on it. Serves C14 and C15.

mod c14;
mod c15;

use serde::{Deserialize, Serialize};
use vcore::drive::{Ctx, Engine, Report, Stage, Tier, Violation};

#[derive(Clone, Debug, Serialize, Deserialize)]
pub enum Case {
    Wrapper(c14::Case),
    Pools(c15::Case),
    Race(c14::RaceCase),
}

pub struct Syncx;

impl Engine for Syncx {
    const NAME: &'static str = "syncx";
    type Case = Case;

    fn properties() -> Vec<&'static str> {
        vec!["C14", "C15"]
    }

    fn rule(prop: &str) -> String {
        match prop {
            "C14" => "case = runtime flavour (current-thread or multi-thread with 2 workers), 1 / 2 / 4 blocking threads and a history of interact (returning / panicking / gated / gated-then-panicking closures), await, cancel, release-gate, drop-wrapper and poison-check steps on a SyncWrapper whose value records the thread and a logical stamp of its construction, every closure and its destruction; distinct by hash of the case. Non-trivial: an interact() future was cancelled while its closure was running, or the wrapper was dropped while a closure was running or queued".into(),
            _ => "case = backend (deadpool-sqlite on :memory:, deadpool-r2d2 with a scripted ManageConnection, deadpool-diesel on SqliteConnection :memory: with Fast / Verified / CustomQuery / CustomFunction), pool size 1..=3 and a history of get / return / interact-ok / interact-panic / cancelled gated panic / release-gate / mark-broken steps; every connection carries an identity the pool cannot change (PRAGMA user_version or a serial number); distinct by hash of the case. Non-trivial: a get() ran while at least one poisoned or broken connection was idle in the pool".into(),
        }
    }

    fn assumptions(prop: &str) -> Vec<String> {
        match prop {
            "C14" => vec![
                "tokio runtime only; the order of blocking-pool work is forced by gates, not every timing of the two thread pools is explored".into(),
                "a thread counts as async if it ever polled a harness future or ran the driver".into(),
            ],
            _ => vec![
                "sqlite has no notion of a broken connection: only poisoning is exercised there".into(),
                "a get() that blocks on a gated closure is let go after 30 ms by opening every gate; no verdict depends on the wall clock".into(),
            ],
        }
    }

    fn stages(ctx: &Ctx) -> Vec<Stage<Case>> {
        use proptest::strategy::Strategy;
        let thorough = ctx.tier == Tier::Thorough;
        if ctx.prop == "C14" {
            vec![
                Stage {
                    name: "wrapper".into(),
                    cases: if thorough { 16 * 8000 } else { 16 * 400 },
                    strategy: c14::case(thorough).prop_map(Case::Wrapper).boxed(),
                },
                Stage {
                    name: "drop-race".into(),
                    cases: if thorough { 16 * 4 } else { 16 },
                    strategy: c14::race_case(thorough).prop_map(Case::Race).boxed(),
                },
            ]
        } else {
            vec![Stage {
                name: "pools".into(),
                cases: if thorough { 16 * 8000 } else { 16 * 400 },
                strategy: c15::case(thorough).prop_map(Case::Pools).boxed(),
            }]
        }
    }

    fn run(ctx: &Ctx, case: &Case) -> Report {
        let (violation, inconclusive, nontrivial, mut labels, trace, step) = match (ctx.prop.as_str(), case) {
            ("C14", Case::Wrapper(c)) => {
                let v = c14::run(c);
                (v.violation, v.inconclusive, v.nontrivial, v.labels, v.trace, v.step)
            }
            ("C14", Case::Race(c)) => {
                let v = c14::run_race(c);
                (v.violation, v.inconclusive, v.nontrivial, v.labels, v.trace, v.step)
            }
            ("C15", Case::Pools(c)) => {
                let v = c15::run(c);
                (v.violation, v.inconclusive, v.nontrivial, v.labels, v.trace, v.step)
            }
            _ => (None, None, false, vec![], vec![], 0),
        };
        labels.sort();
        labels.dedup();
        Report {
            violation: violation.map(|(oracle, detail)| Violation {
                oracle,
                step,
                detail,
                trace,
            }),
            nontrivial,
            labels,
            known: vec![],
            inconclusive,
            executions: 1,
            sub_nontrivial: vec![],
        }
    }
}

fn main() {
    if std::env::var_os("VERIF_VERBOSE").is_none() {
        vcore::sched::quiet_all_panics();
    }
    vcore::main_for::<Syncx>()
}
