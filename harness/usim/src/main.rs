//! thin binary around the `usim` library (see lib.rs)

fn main() {
    vcore::main_for::<usim::Usim>()
}
