//! E2: schedule-owning interpreter for the unmanaged pool. Serves C05 and C12.

use std::any::Any;
use std::collections::BTreeSet;
use std::future::Future;
use std::pin::Pin;
use std::sync::{Arc, Mutex};
use std::task::{Context, Poll, Waker};
use std::time::Duration;

use deadpool::unmanaged::{Object, Pool, PoolConfig, PoolError};
use proptest::prelude::*;
use proptest::strategy::BoxedStrategy;
use serde::{Deserialize, Serialize};
use vcore::drive::{Ctx, Engine, Report, Stage, Tier, Violation};
use vcore::sched::{current_op, lock, PanicKind, Run, Sched, WakeFlag};
use vcore::pick;

// ---------------------------------------------------------------- case types

#[derive(Clone, Copy, Debug, Serialize, Deserialize, PartialEq, Eq, Hash)]
pub enum Build {
    New,
    FromConfig,
    FromVec,
}

#[derive(Clone, Copy, Debug, Serialize, Deserialize, PartialEq, Eq, Hash)]
pub enum Step {
    Get { pause: Option<u8> },
    TryGet { pause: Option<u8> },
    TimeoutGet0 { pause: Option<u8> },
    /// timeout_get with a non-zero timeout and no runtime
    TimeoutGetNoRt,
    Add { pause: Option<u8> },
    TryAdd { pause: Option<u8> },
    /// add back an object the caller got from remove / take / a refused add
    ReAdd { o: u8, pause: Option<u8> },
    Remove { pause: Option<u8> },
    TryRemove { pause: Option<u8> },
    Take { h: u8, pause: Option<u8> },
    Return { h: u8, pause: Option<u8> },
    /// the holder panics: the object goes back while that thread unwinds
    PanicReturn { h: u8 },
    Poll { f: u8, pause: Option<u8> },
    PollWoken { pause: Option<u8> },
    Cancel { f: u8 },
    Status,
    Close { pause: Option<u8> },
    Resume { p: u8, pause: Option<u8> },
}

#[derive(Clone, Debug, Serialize, Deserialize, PartialEq, Eq, Hash)]
pub struct Case {
    pub build: Build,
    pub n: u8,
    pub steps: Vec<Step>,
    /// bounded-preemption sweep over a pause-free history (every placement of one pause)
    #[serde(default, skip_serializing_if = "Option::is_none")]
    pub sweep: Option<u8>,
    /// a history with timeouts on a virtual clock (unmanaged pool with a runtime), run by the
    /// tsim interpreter; `build`, `n` and `steps` are unused then
    #[serde(default, skip_serializing_if = "Option::is_none")]
    pub timed: Option<tsim::Case>,
}

impl Step {
    fn with_pause(&self, k: u8) -> Option<Step> {
        let pause = Some(k);
        Some(match *self {
            Step::Get { .. } => Step::Get { pause },
            Step::TryGet { .. } => Step::TryGet { pause },
            Step::TimeoutGet0 { .. } => Step::TimeoutGet0 { pause },
            Step::Add { .. } => Step::Add { pause },
            Step::TryAdd { .. } => Step::TryAdd { pause },
            Step::ReAdd { o, .. } => Step::ReAdd { o, pause },
            Step::Remove { .. } => Step::Remove { pause },
            Step::TryRemove { .. } => Step::TryRemove { pause },
            Step::Take { h, .. } => Step::Take { h, pause },
            Step::Return { h, .. } => Step::Return { h, pause },
            Step::Poll { f, .. } => Step::Poll { f, pause },
            Step::PollWoken { .. } => Step::PollWoken { pause },
            Step::Close { .. } => Step::Close { pause },
            _ => return None,
        })
    }
}

// ---------------------------------------------------------------- ground truth

pub struct UW {
    log: Vec<String>,
    destroyed: Vec<bool>,
    /// ids whose destruction is the harness's own doing
    harness_drops: BTreeSet<u32>,
    /// destructor runs that were not the harness's doing: (id, op)
    pool_drops: Vec<(u32, u32)>,
}

pub struct UWorld(Mutex<UW>);

impl UWorld {
    fn w(&self) -> std::sync::MutexGuard<'_, UW> {
        lock(&self.0)
    }
}

pub struct UObj {
    id: u32,
    world: Arc<UWorld>,
}

impl Drop for UObj {
    fn drop(&mut self) {
        let mut w = self.world.w();
        let op = current_op();
        w.log.push(format!("Destroyed {{ id: {}, op: {} }}", self.id, op));
        if (self.id as usize) < w.destroyed.len() {
            w.destroyed[self.id as usize] = true;
        }
        if !w.harness_drops.contains(&self.id) {
            w.pool_drops.push((self.id, op));
        }
    }
}

#[derive(Clone, Copy, Debug, PartialEq, Eq)]
enum Loc {
    Pool,
    Held,
    Out,
    InAdd,
    Returning,
    Gone,
}

type GetFut = Pin<Box<dyn Future<Output = Result<Object<UObj>, PoolError>> + Send>>;
type AddFut = Pin<Box<dyn Future<Output = Result<(), (UObj, PoolError)>> + Send>>;
type RemFut = Pin<Box<dyn Future<Output = Result<UObj, PoolError>> + Send>>;

enum UFut {
    Get(GetFut),
    Add(AddFut, u32),
    Remove(RemFut),
}

enum FOut {
    Get(Result<Object<UObj>, PoolError>),
    Add(Result<(), (UObj, PoolError)>, u32),
    Remove(Result<UObj, PoolError>),
}

#[derive(Clone, Copy, Debug, PartialEq, Eq)]
enum FState {
    Pending,
    OnWorker,
    Done,
}

struct FSlot {
    op: u32,
    fut: Option<UFut>,
    flag: Arc<WakeFlag>,
    state: FState,
    is_add: Option<u32>,
    after_close: bool,
    pending_at_close: bool,
}

enum PKind {
    Poll(usize),
    TryGet,
    TryRemove,
    TryAdd(u32),
    Take(u32),
    Return(u32),
    Close,
}

struct Parked {
    worker: usize,
    kind: PKind,
    op: u32,
}

enum OpOut {
    Poll(Option<UFut>, Option<FOut>),
    TryGet(Result<Object<UObj>, PoolError>),
    TryRemove(Result<UObj, PoolError>),
    TryAdd(Result<(), (UObj, PoolError)>),
    Take(UObj),
    Unit,
}

struct Held {
    obj: Object<UObj>,
    id: u32,
}

struct Interp<'a> {
    ctx: &'a Ctx,
    case: &'a Case,
    world: Arc<UWorld>,
    pool: Pool<UObj>,
    max: usize,
    sched: Sched,
    loc: Vec<Loc>,
    /// op that owns the object while it is InAdd / Returning
    owner: std::collections::BTreeMap<u32, u32>,
    futs: Vec<FSlot>,
    held: Vec<Held>,
    out: Vec<UObj>,
    parked: Vec<Parked>,
    next_op: u32,
    step: usize,
    violation: Option<Violation>,
    inconclusive: Option<String>,
    labels: Vec<String>,
    known: Vec<String>,
    close_started: bool,
    close_done: bool,
    close_step: Option<usize>,
    saw_full: bool,
    saw_empty: bool,
    saw_cancel: bool,
    overlap: bool,
}

fn perr(e: &PoolError) -> &'static str {
    match e {
        PoolError::Timeout => "Timeout",
        PoolError::Closed => "Closed",
        PoolError::NoRuntimeSpecified => "NoRuntimeSpecified",
    }
}

impl<'a> Interp<'a> {
    fn new(ctx: &'a Ctx, case: &'a Case) -> Self {
        let world = Arc::new(UWorld(Mutex::new(UW {
            log: vec![],
            destroyed: vec![],
            harness_drops: BTreeSet::new(),
            pool_drops: vec![],
        })));
        let sink_world = world.clone();
        let sched = Sched::new(Arc::new(move |op, label| {
            sink_world.w().log.push(format!("Point {{ op: {}, label: {:?} }}", op, label));
        }));
        let n = case.n as usize;
        let mut loc = vec![];
        let pool = match case.build {
            Build::New => Pool::new(n),
            Build::FromConfig => Pool::from_config(&PoolConfig {
                max_size: n,
                timeout: None,
                runtime: None,
            }),
            Build::FromVec => {
                let mut v = vec![];
                for i in 0..n {
                    world.w().destroyed.push(false);
                    loc.push(Loc::Pool);
                    v.push(UObj {
                        id: i as u32,
                        world: world.clone(),
                    });
                }
                Pool::from(v)
            }
        };
        Interp {
            ctx,
            case,
            world,
            pool,
            max: n,
            sched,
            loc,
            owner: Default::default(),
            futs: vec![],
            held: vec![],
            out: vec![],
            parked: vec![],
            next_op: 1,
            step: 0,
            violation: None,
            inconclusive: None,
            labels: vec![],
            known: vec![],
            close_started: false,
            close_done: false,
            close_step: None,
            saw_full: false,
            saw_empty: false,
            saw_cancel: false,
            overlap: false,
        }
    }

    fn fail(&mut self, oracle: &str, detail: String) {
        if self.violation.is_none() {
            let w = self.world.w();
            let n = w.log.len();
            let trace = w.log[n.saturating_sub(300)..].to_vec();
            drop(w);
            self.violation = Some(Violation {
                oracle: oracle.into(),
                step: self.step,
                detail,
                trace,
            });
        }
    }

    fn flag(&mut self, oracle: &str, props: &[&str], detail: String) {
        if props.contains(&self.ctx.prop.as_str()) {
            self.fail(oracle, detail);
        }
    }

    fn op(&mut self) -> u32 {
        self.next_op += 1;
        self.next_op
    }

    fn new_obj(&mut self) -> UObj {
        let mut w = self.world.w();
        let id = w.destroyed.len() as u32;
        w.destroyed.push(false);
        drop(w);
        self.loc.push(Loc::Out);
        UObj {
            id,
            world: self.world.clone(),
        }
    }

    fn queue(&self) -> Vec<u32> {
        let mut v = vec![];
        // a panic inside the pool may have poisoned its mutex
        let _ = std::panic::catch_unwind(std::panic::AssertUnwindSafe(|| {
            self.pool.verif_queue(|o| v.push(o.id));
        }));
        v
    }

    fn snap(&self) -> Option<deadpool::verif::UnmanagedSnapshot> {
        std::panic::catch_unwind(std::panic::AssertUnwindSafe(|| self.pool.verif_snapshot())).ok()
    }

    fn pending(&self) -> Vec<usize> {
        self.futs
            .iter()
            .enumerate()
            .filter(|(_, f)| f.state == FState::Pending)
            .map(|(i, _)| i)
            .collect()
    }

    fn quiescent(&self) -> bool {
        self.parked.is_empty()
            && !self
                .futs
                .iter()
                .any(|f| f.state == FState::Pending && f.flag.is_set())
    }

    fn panicked(&mut self, what: &str, pk: PanicKind) {
        self.flag(
            "unmanaged-call-panicked",
            &["C12", "C05"],
            format!("{} panicked: {:?}", what, pk),
        );
    }

    // ---------------------------------------------------------------- steps

    fn run(mut self) -> Report {
        let steps = self.case.steps.clone();
        self.check_always("initially");
        for (i, s) in steps.iter().enumerate() {
            if self.violation.is_some() || self.inconclusive.is_some() {
                break;
            }
            self.step = i;
            self.world.w().log.push(format!("Step {} {:?}", i, s));
            if !self.parked.is_empty() && !matches!(s, Step::Resume { .. } | Step::Status) {
                self.overlap = true;
            }
            self.do_step(*s);
            self.after_step();
        }
        if self.violation.is_none() && self.inconclusive.is_none() {
            self.step = steps.len();
            self.finish();
        }
        // teardown
        while !self.parked.is_empty() {
            let p = self.parked.remove(0);
            let _ = self.sched.resume(p.worker, None);
        }
        {
            let mut w = self.world.w();
            for i in 0..w.destroyed.len() {
                w.harness_drops.insert(i as u32);
            }
        }
        let nt = match self.ctx.prop.as_str() {
            "C05" => (self.saw_full && self.saw_empty && self.max >= 1) || self.saw_cancel || self.overlap,
            "C12" => self.close_step.map(|c| c + 1 < self.case.steps.len()).unwrap_or(false),
            _ => false,
        };
        self.labels.sort();
        self.labels.dedup();
        Report {
            violation: self.violation.take(),
            nontrivial: nt,
            labels: std::mem::take(&mut self.labels),
            known: std::mem::take(&mut self.known),
            inconclusive: self.inconclusive.take(),
            executions: 1,
            sub_nontrivial: vec![],
        }
    }

    fn do_step(&mut self, s: Step) {
        match s {
            Step::Get { pause } => {
                let p = self.pool.clone();
                let fut: GetFut = Box::pin(async move { p.get().await });
                self.start_fut(UFut::Get(fut), pause);
            }
            Step::TimeoutGet0 { pause } => {
                let p = self.pool.clone();
                let fut: GetFut = Box::pin(async move { p.timeout_get(Some(Duration::ZERO)).await });
                self.start_fut(UFut::Get(fut), pause);
            }
            Step::TimeoutGetNoRt => {
                let p = self.pool.clone();
                let fut: GetFut = Box::pin(async move { p.timeout_get(Some(Duration::from_secs(1))).await });
                let before = self.snap();
                self.start_fut(UFut::Get(fut), None);
                let after = self.snap();
                if self.parked.is_empty() && before != after {
                    self.flag(
                        "no-runtime-get-changed-pool",
                        &["C05", "C12"],
                        format!("timeout_get without a runtime changed {:?} to {:?}", before, after),
                    );
                }
            }
            Step::Remove { pause } => {
                let p = self.pool.clone();
                let fut: RemFut = Box::pin(async move { p.remove().await });
                self.start_fut(UFut::Remove(fut), pause);
            }
            Step::Add { pause } => {
                let o = self.new_obj();
                self.start_add(o, pause);
            }
            Step::ReAdd { o, pause } => {
                if let Some(i) = pick(o, self.out.len()) {
                    let obj = self.out.remove(i);
                    self.start_add(obj, pause);
                }
            }
            Step::TryAdd { pause } => {
                let o = self.new_obj();
                self.try_add(o, pause);
            }
            Step::TryGet { pause } => self.try_get(pause),
            Step::TryRemove { pause } => self.try_remove(pause),
            Step::Take { h, pause } => {
                if let Some(i) = pick(h, self.held.len()) {
                    self.take(i, pause);
                }
            }
            Step::Return { h, pause } => {
                if let Some(i) = pick(h, self.held.len()) {
                    self.ret(i, pause);
                }
            }
            Step::PanicReturn { h } => {
                if let Some(i) = pick(h, self.held.len()) {
                    let hobj = self.held.remove(i);
                    let op = self.op();
                    let id = hobj.id;
                    self.loc[id as usize] = Loc::Returning;
                    self.owner.insert(id, op);
                    let obj = hobj.obj;
                    self.labels.push("return:while-unwinding".into());
                    let r: Result<(), PanicKind> = self.sched.run_inline(op, move || {
                        let _held = obj;
                        std::panic::panic_any(vcore::sched::Injected);
                    });
                    match r {
                        Err(PanicKind::Injected) | Ok(()) => self.returned(id, op),
                        Err(pk) => {
                            self.loc[id as usize] = Loc::Gone;
                            self.panicked("returning an object while its holder unwinds", pk)
                        }
                    }
                }
            }
            Step::Poll { f, pause } => {
                let p = self.pending();
                if let Some(i) = pick(f, p.len()) {
                    self.poll(p[i], pause);
                }
            }
            Step::PollWoken { pause } => {
                let p: Vec<usize> = self
                    .pending()
                    .into_iter()
                    .filter(|i| self.futs[*i].flag.is_set())
                    .collect();
                if let Some(&i) = p.first() {
                    self.poll(i, pause);
                }
            }
            Step::Cancel { f } => {
                let p = self.pending();
                if let Some(i) = pick(f, p.len()) {
                    self.cancel(p[i]);
                }
            }
            Step::Status => {}
            Step::Close { pause } => self.close(pause),
            Step::Resume { p, pause } => {
                if let Some(i) = pick(p, self.parked.len()) {
                    let pk = self.parked.remove(i);
                    let r = self.sched.resume(pk.worker, pause.map(|k| k as u32));
                    self.handle(r, pk.kind, pk.op);
                }
            }
        }
    }

    fn start_add(&mut self, obj: UObj, pause: Option<u8>) {
        let id = obj.id;
        self.loc[id as usize] = Loc::InAdd;
        let p = self.pool.clone();
        let fut: AddFut = Box::pin(async move { p.add(obj).await });
        self.start_fut(UFut::Add(fut, id), pause);
    }

    fn start_fut(&mut self, fut: UFut, pause: Option<u8>) {
        if self.pending().len() >= 6 {
            // drop the future again (an add gives its object back to nobody)
            if let UFut::Add(_, id) = &fut {
                self.world.w().harness_drops.insert(*id);
                self.loc[*id as usize] = Loc::Gone;
            }
            drop(fut);
            return;
        }
        let op = self.op();
        let is_add = if let UFut::Add(_, id) = &fut { Some(*id) } else { None };
        if let Some(id) = is_add {
            self.owner.insert(id, op);
        }
        self.futs.push(FSlot {
            op,
            fut: Some(fut),
            flag: WakeFlag::new(),
            state: FState::Pending,
            is_add,
            after_close: self.close_done,
            pending_at_close: false,
        });
        let f = self.futs.len() - 1;
        self.poll(f, pause);
    }

    fn poll(&mut self, f: usize, pause: Option<u8>) {
        let op = self.futs[f].op;
        let Some(mut fut) = self.futs[f].fut.take() else { return };
        let flag = self.futs[f].flag.clone();
        let _ = flag.take();
        // sequential model for the first poll of a call at a quiescent point is checked in fut_done / pending
        let quiet = pause.is_none() && self.quiescent();
        let model = if quiet { Some(self.model()) } else { None };
        fn poll_one(fut: &mut UFut, cx: &mut Context<'_>) -> Option<FOut> {
            match fut {
                UFut::Get(f) => match f.as_mut().poll(cx) {
                    Poll::Ready(r) => Some(FOut::Get(r)),
                    Poll::Pending => None,
                },
                UFut::Add(f, id) => match f.as_mut().poll(cx) {
                    Poll::Ready(r) => Some(FOut::Add(r, *id)),
                    Poll::Pending => None,
                },
                UFut::Remove(f) => match f.as_mut().poll(cx) {
                    Poll::Ready(r) => Some(FOut::Remove(r)),
                    Poll::Pending => None,
                },
            }
        }
        match pause {
            None => {
                let waker = Waker::from(flag);
                let r = self.sched.run_inline(op, || {
                    let mut cx = Context::from_waker(&waker);
                    poll_one(&mut fut, &mut cx)
                });
                match r {
                    Ok(None) => {
                        self.futs[f].fut = Some(fut);
                        self.fut_pending(f, model);
                    }
                    Ok(Some(out)) => {
                        let _ = self.sched.run_inline(op, move || drop(fut));
                        self.fut_done(f, out, model);
                    }
                    Err(pk) => {
                        if let Some(id) = self.futs[f].is_add {
                            self.world.w().harness_drops.insert(id);
                        }
                        let _ = self.sched.run_inline(op, move || drop(fut));
                        self.futs[f].state = FState::Done;
                        self.panicked("a pool future", pk);
                    }
                }
            }
            Some(k) => {
                self.futs[f].state = FState::OnWorker;
                let fun: Box<dyn FnOnce() -> Box<dyn Any + Send> + Send> = Box::new(move || {
                    let waker = Waker::from(flag);
                    let mut cx = Context::from_waker(&waker);
                    let r = poll_one(&mut fut, &mut cx);
                    let out = match r {
                        None => OpOut::Poll(Some(fut), None),
                        Some(o) => {
                            drop(fut);
                            OpOut::Poll(None, Some(o))
                        }
                    };
                    Box::new(out) as Box<dyn Any + Send>
                });
                let r = self.sched.spawn(op, k as u32, fun);
                self.handle(r, PKind::Poll(f), op);
            }
        }
    }

    /// (queue length, size, full, empty) by ground truth
    fn model(&self) -> (usize, usize) {
        let q = self.queue().len();
        (q, q + self.held.len())
    }

    fn fut_pending(&mut self, f: usize, model: Option<(usize, usize)>) {
        self.futs[f].state = FState::Pending;
        if let Some((q, size)) = model {
            if self.close_done {
                self.flag(
                    "call-after-close-waits",
                    &["C12"],
                    format!("future #{} started or polled after close() returned is still pending", f),
                );
            } else if !self.close_started {
                match self.futs[f].is_add {
                    Some(_) => {
                        if size < self.max {
                            self.flag(
                                "add-waits-although-not-full",
                                &["C05"],
                                format!("add() is pending although the pool holds {} of {} objects", size, self.max),
                            );
                        }
                    }
                    None => {
                        if q > 0 {
                            self.flag(
                                "get-waits-although-object-available",
                                &["C05"],
                                format!("get()/remove() is pending although {} objects wait in the pool", q),
                            );
                        }
                    }
                }
            }
        }
    }

    fn fut_done(&mut self, f: usize, out: FOut, model: Option<(usize, usize)>) {
        self.futs[f].state = FState::Done;
        let after_close = self.futs[f].after_close || self.futs[f].pending_at_close;
        match out {
            FOut::Get(r) => self.got(r, model, after_close, "get"),
            FOut::Remove(r) => self.removed(r, model, after_close, "remove"),
            FOut::Add(r, id) => {
                let op = self.futs[f].op;
                self.added(r, id, op, model, after_close, "add")
            }
        }
    }

    fn got(&mut self, r: Result<Object<UObj>, PoolError>, model: Option<(usize, usize)>, after_close: bool, what: &str) {
        match r {
            Ok(o) => {
                let id = o.id;
                self.labels.push(format!("{}:ok", what));
                if after_close {
                    self.flag(
                        "object-after-close",
                        &["C12"],
                        format!("{} yielded object {} although close() had returned before the call was made or while it waited", what, id),
                    );
                }
                if self.loc[id as usize] != Loc::Pool && self.loc[id as usize] != Loc::InAdd && self.loc[id as usize] != Loc::Returning {
                    self.flag(
                        "object-duplicated",
                        &["C05"],
                        format!("{} yielded object {} which is {:?}", what, id, self.loc[id as usize]),
                    );
                }
                self.loc[id as usize] = Loc::Held;
                self.held.push(Held { obj: o, id });
            }
            Err(e) => {
                self.labels.push(format!("{}:{}", what, perr(&e)));
                if let Some((q, _)) = model {
                    if self.close_done {
                        // a call that is mis-configured (timeout without a runtime) may say so instead
                        if !matches!(e, PoolError::Closed | PoolError::NoRuntimeSpecified) {
                            self.flag("wrong-error-after-close", &["C12"], format!("{} failed with {} on a closed pool", what, perr(&e)));
                        }
                    } else if !self.close_started {
                        match e {
                            PoolError::Timeout if q > 0 => self.flag(
                                "timeout-although-object-available",
                                &["C05"],
                                format!("{} reported Timeout although {} objects wait in the pool", what, q),
                            ),
                            PoolError::Closed => self.flag(
                                "closed-on-open-pool",
                                &["C05", "C12"],
                                format!("{} reported Closed on an open pool", what),
                            ),
                            _ => {}
                        }
                    }
                }
            }
        }
    }

    fn removed(&mut self, r: Result<UObj, PoolError>, model: Option<(usize, usize)>, after_close: bool, what: &str) {
        match r {
            Ok(o) => {
                let id = o.id;
                self.labels.push(format!("{}:ok", what));
                if after_close {
                    self.flag("object-after-close", &["C12"], format!("{} yielded object {} after close()", what, id));
                }
                if !matches!(self.loc[id as usize], Loc::Pool | Loc::InAdd | Loc::Returning) {
                    self.flag("object-duplicated", &["C05"], format!("{} yielded object {} which is {:?}", what, id, self.loc[id as usize]));
                }
                self.loc[id as usize] = Loc::Out;
                self.out.push(o);
            }
            Err(e) => {
                self.labels.push(format!("{}:{}", what, perr(&e)));
                if let Some((q, _)) = model {
                    if self.close_done {
                        if !matches!(e, PoolError::Closed) {
                            self.flag("wrong-error-after-close", &["C12"], format!("{} failed with {} on a closed pool", what, perr(&e)));
                        }
                    } else if !self.close_started {
                        if matches!(e, PoolError::Timeout) && q > 0 {
                            self.flag("timeout-although-object-available", &["C05"], format!("{} reported Timeout although {} objects wait in the pool", what, q));
                        }
                        if matches!(e, PoolError::Closed) {
                            self.flag("closed-on-open-pool", &["C05", "C12"], format!("{} reported Closed on an open pool", what));
                        }
                    }
                }
            }
        }
    }

    fn added(&mut self, r: Result<(), (UObj, PoolError)>, id: u32, op: u32, model: Option<(usize, usize)>, after_close: bool, what: &str) {
        match r {
            Ok(()) => {
                self.labels.push(format!("{}:ok", what));
                // a get() may already have taken the object out again
                if self.loc[id as usize] == Loc::InAdd && self.owner.get(&id) == Some(&op) {
                    self.loc[id as usize] = Loc::Pool;
                }
                if after_close {
                    self.flag(
                        "add-accepted-after-close",
                        &["C12"],
                        format!("{} accepted object {} although close() had returned", what, id),
                    );
                }
                if let Some((_, size)) = model {
                    if size >= self.max && !self.close_started {
                        self.flag(
                            "add-over-max-size",
                            &["C05"],
                            format!("{} accepted object {} although the pool already held {} of {} objects", what, id, size, self.max),
                        );
                    }
                }
            }
            Err((o, e)) => {
                self.labels.push(format!("{}:{}", what, perr(&e)));
                if o.id != id {
                    self.flag("add-returned-other-object", &["C05", "C12"], format!("{} of object {} handed back object {}", what, id, o.id));
                }
                self.loc[o.id as usize] = Loc::Out;
                self.out.push(o);
                if let Some((_, size)) = model {
                    if self.close_done {
                        if !matches!(e, PoolError::Closed) {
                            self.flag("wrong-error-after-close", &["C12"], format!("{} failed with {} on a closed pool", what, perr(&e)));
                        }
                    } else if !self.close_started {
                        match e {
                            PoolError::Timeout if size < self.max => self.flag(
                                "add-refused-although-not-full",
                                &["C05"],
                                format!("{} reported Timeout although the pool holds {} of {} objects", what, size, self.max),
                            ),
                            PoolError::Closed => self.flag("closed-on-open-pool", &["C05", "C12"], format!("{} reported Closed on an open pool", what)),
                            PoolError::NoRuntimeSpecified => self.flag("add-no-runtime", &["C05"], format!("{} reported NoRuntimeSpecified", what)),
                            _ => {}
                        }
                    }
                }
            }
        }
    }

    fn handle(&mut self, r: Result<Run, vcore::sched::Watchdog>, kind: PKind, op: u32) {
        match r {
            Err(_) => {
                self.inconclusive = Some(format!("watchdog at step {}", self.step));
            }
            Ok(Run::Parked { worker, label }) => {
                self.world.w().log.push(format!("Parked {{ op: {}, label: {:?} }}", op, label));
                self.labels.push(format!("park:{}", label));
                self.parked.push(Parked { worker, kind, op });
                self.check_always("at a park");
            }
            Ok(Run::Done(res)) => self.complete(kind, op, res),
        }
    }

    fn complete(&mut self, kind: PKind, op: u32, res: vcore::sched::OpResult) {
        match (kind, res) {
            (PKind::Poll(f), Ok(b)) => match *b.downcast::<OpOut>().expect("opout") {
                OpOut::Poll(Some(fut), None) => {
                    self.futs[f].fut = Some(fut);
                    self.fut_pending(f, None);
                }
                OpOut::Poll(_, Some(out)) => self.fut_done(f, out, None),
                _ => unreachable!(),
            },
            (PKind::Poll(f), Err(pk)) => {
                self.futs[f].state = FState::Done;
                if let Some(id) = self.futs[f].is_add {
                    // the object went down with the panicking call
                    self.loc[id as usize] = Loc::Gone;
                }
                self.panicked("a pool future", pk);
            }
            (PKind::TryGet, Ok(b)) => match *b.downcast::<OpOut>().expect("opout") {
                OpOut::TryGet(r) => self.got(r, None, false, "try_get"),
                _ => unreachable!(),
            },
            (PKind::TryRemove, Ok(b)) => match *b.downcast::<OpOut>().expect("opout") {
                OpOut::TryRemove(r) => self.removed(r, None, false, "try_remove"),
                _ => unreachable!(),
            },
            (PKind::TryAdd(id), Ok(b)) => match *b.downcast::<OpOut>().expect("opout") {
                OpOut::TryAdd(r) => self.added(r, id, op, None, false, "try_add"),
                _ => unreachable!(),
            },
            (PKind::Take(id), Ok(b)) => match *b.downcast::<OpOut>().expect("opout") {
                OpOut::Take(o) => self.took(id, o),
                _ => unreachable!(),
            },
            (PKind::Return(id), Ok(_)) => self.returned(id, op),
            (PKind::Close, Ok(_)) => self.closed(),
            (PKind::TryGet, Err(pk)) => self.panicked("try_get", pk),
            (PKind::TryRemove, Err(pk)) => self.panicked("try_remove", pk),
            (PKind::TryAdd(id), Err(pk)) => {
                self.loc[id as usize] = Loc::Gone;
                self.panicked("try_add", pk)
            }
            (PKind::Take(id), Err(pk)) => {
                self.loc[id as usize] = Loc::Gone;
                self.panicked("take", pk)
            }
            (PKind::Return(id), Err(pk)) => {
                self.loc[id as usize] = Loc::Gone;
                self.panicked("returning an object", pk)
            }
            (PKind::Close, Err(pk)) => self.panicked("close", pk),
        }
    }

    fn try_get(&mut self, pause: Option<u8>) {
        let op = self.op();
        let p = self.pool.clone();
        match pause {
            None => {
                let model = if self.quiescent() { Some(self.model()) } else { None };
                match self.sched.run_inline(op, move || p.try_get()) {
                    Ok(r) => {
                        let ac = self.close_done;
                        self.got(r, model, ac, "try_get")
                    }
                    Err(pk) => self.panicked("try_get", pk),
                }
            }
            Some(k) => {
                if self.close_done {
                    // results after close are judged on the sequential path
                }
                let fun: Box<dyn FnOnce() -> Box<dyn Any + Send> + Send> =
                    Box::new(move || Box::new(OpOut::TryGet(p.try_get())) as Box<dyn Any + Send>);
                let r = self.sched.spawn(op, k as u32, fun);
                self.handle(r, PKind::TryGet, op);
            }
        }
    }

    fn try_remove(&mut self, pause: Option<u8>) {
        let op = self.op();
        let p = self.pool.clone();
        match pause {
            None => {
                let model = if self.quiescent() { Some(self.model()) } else { None };
                match self.sched.run_inline(op, move || p.try_remove()) {
                    Ok(r) => {
                        let ac = self.close_done;
                        self.removed(r, model, ac, "try_remove")
                    }
                    Err(pk) => self.panicked("try_remove", pk),
                }
            }
            Some(k) => {
                let fun: Box<dyn FnOnce() -> Box<dyn Any + Send> + Send> =
                    Box::new(move || Box::new(OpOut::TryRemove(p.try_remove())) as Box<dyn Any + Send>);
                let r = self.sched.spawn(op, k as u32, fun);
                self.handle(r, PKind::TryRemove, op);
            }
        }
    }

    fn try_add(&mut self, obj: UObj, pause: Option<u8>) {
        let op = self.op();
        let p = self.pool.clone();
        let id = obj.id;
        self.loc[id as usize] = Loc::InAdd;
        self.owner.insert(id, op);
        match pause {
            None => {
                let model = if self.quiescent() { Some(self.model()) } else { None };
                match self.sched.run_inline(op, move || p.try_add(obj)) {
                    Ok(r) => {
                        let ac = self.close_done;
                        self.added(r, id, op, model, ac, "try_add")
                    }
                    Err(pk) => {
                        self.loc[id as usize] = Loc::Gone;
                        self.panicked("try_add", pk)
                    }
                }
            }
            Some(k) => {
                let fun: Box<dyn FnOnce() -> Box<dyn Any + Send> + Send> =
                    Box::new(move || Box::new(OpOut::TryAdd(p.try_add(obj))) as Box<dyn Any + Send>);
                let r = self.sched.spawn(op, k as u32, fun);
                self.handle(r, PKind::TryAdd(id), op);
            }
        }
    }

    fn take(&mut self, i: usize, pause: Option<u8>) {
        let h = self.held.remove(i);
        let op = self.op();
        let id = h.id;
        self.loc[id as usize] = Loc::Out;
        let obj = h.obj;
        match pause {
            None => match self.sched.run_inline(op, move || Object::take(obj)) {
                Ok(o) => self.took(id, o),
                Err(pk) => {
                    self.loc[id as usize] = Loc::Gone;
                    self.panicked("take", pk)
                }
            },
            Some(k) => {
                let fun: Box<dyn FnOnce() -> Box<dyn Any + Send> + Send> =
                    Box::new(move || Box::new(OpOut::Take(Object::take(obj))) as Box<dyn Any + Send>);
                let r = self.sched.spawn(op, k as u32, fun);
                self.handle(r, PKind::Take(id), op);
            }
        }
    }

    fn took(&mut self, id: u32, o: UObj) {
        self.labels.push("take".into());
        if o.id != id {
            self.flag("take-wrong-object", &["C05"], format!("take of object {} returned object {}", id, o.id));
        }
        self.out.push(o);
    }

    fn ret(&mut self, i: usize, pause: Option<u8>) {
        let h = self.held.remove(i);
        let op = self.op();
        let id = h.id;
        self.loc[id as usize] = Loc::Returning;
        self.owner.insert(id, op);
        let obj = h.obj;
        match pause {
            None => match self.sched.run_inline(op, move || drop(obj)) {
                Ok(()) => self.returned(id, op),
                Err(pk) => {
                    self.loc[id as usize] = Loc::Gone;
                    self.panicked("returning an object", pk)
                }
            },
            Some(k) => {
                let fun: Box<dyn FnOnce() -> Box<dyn Any + Send> + Send> = Box::new(move || {
                    drop(obj);
                    Box::new(OpOut::Unit) as Box<dyn Any + Send>
                });
                let r = self.sched.spawn(op, k as u32, fun);
                self.handle(r, PKind::Return(id), op);
            }
        }
    }

    fn returned(&mut self, id: u32, op: u32) {
        self.labels.push("return".into());
        if self.loc[id as usize] == Loc::Returning && self.owner.get(&id) == Some(&op) {
            self.loc[id as usize] = Loc::Pool;
        }
    }

    fn cancel(&mut self, f: usize) {
        let op = self.futs[f].op;
        let Some(fut) = self.futs[f].fut.take() else { return };
        self.saw_cancel = true;
        self.labels.push(
            match &fut {
                UFut::Get(_) => "cancel:get",
                UFut::Add(..) => "cancel:add",
                UFut::Remove(_) => "cancel:remove",
            }
            .into(),
        );
        if let UFut::Add(_, id) = &fut {
            // the caller gave the object to the future; dropping it is the caller's doing
            self.world.w().harness_drops.insert(*id);
            self.loc[*id as usize] = Loc::Gone;
        }
        if let Err(pk) = self.sched.run_inline(op, move || drop(fut)) {
            self.panicked("dropping a pool future", pk);
        }
        self.futs[f].state = FState::Done;
    }

    fn close(&mut self, pause: Option<u8>) {
        let op = self.op();
        let p = self.pool.clone();
        if !self.close_started {
            let q = self.queue().len();
            if pause.is_some() || !self.parked.is_empty() || !self.pending().is_empty() || q > 0 {
                self.close_step = Some(self.step);
            }
        }
        self.close_started = true;
        match pause {
            None => match self.sched.run_inline(op, move || p.close()) {
                Ok(()) => self.closed(),
                Err(pk) => self.panicked("close", pk),
            },
            Some(k) => {
                let fun: Box<dyn FnOnce() -> Box<dyn Any + Send> + Send> = Box::new(move || {
                    p.close();
                    Box::new(OpOut::Unit) as Box<dyn Any + Send>
                });
                let r = self.sched.spawn(op, k as u32, fun);
                self.handle(r, PKind::Close, op);
            }
        }
    }

    fn closed(&mut self) {
        self.labels.push("close".into());
        if !self.close_done {
            self.close_done = true;
            for f in self.pending() {
                self.futs[f].pending_at_close = true;
                if !self.futs[f].flag.is_set() {
                    self.flag(
                        "waiter-not-woken-by-close",
                        &["C12"],
                        format!("future #{} was waiting when close() returned and was not woken", f),
                    );
                }
            }
        }
        if !self.pool.is_closed() {
            self.flag("is-closed-false", &["C12"], "is_closed() is false after close() returned".into());
        }
    }

    // -------------------------------------------------------------- monitors

    fn check_always(&mut self, at: &str) {
        if self.violation.is_some() {
            return;
        }
        let q = self.queue();
        let (destroyed, pool_drops): (Vec<bool>, Vec<(u32, u32)>) = {
            let mut w = self.world.w();
            (w.destroyed.clone(), std::mem::take(&mut w.pool_drops))
        };
        // destructor runs that were not the harness's doing
        for (id, op) in pool_drops {
            self.loc[id as usize] = Loc::Gone;
            if !self.close_started {
                self.flag(
                    "object-dropped-by-open-pool",
                    &["C05"],
                    format!("{}: object {} was destroyed by the pool (op {}) while the pool was open", at, id, op),
                );
            }
        }
        let mut seen = BTreeSet::new();
        for id in &q {
            if !seen.insert(*id) {
                self.flag("object-duplicated", &["C05"], format!("{}: object {} is queued twice", at, id));
            }
            if !matches!(self.loc.get(*id as usize), Some(Loc::Pool) | Some(Loc::InAdd) | Some(Loc::Returning)) {
                self.flag(
                    "object-duplicated",
                    &["C05"],
                    format!("{}: object {} is queued in the pool and also {:?}", at, id, self.loc.get(*id as usize)),
                );
            }
        }
        // a parked get / remove may have popped an object that it has not handed over yet
        let mut in_flight_gets = self
            .parked
            .iter()
            .filter(|p| match p.kind {
                PKind::TryGet | PKind::TryRemove => true,
                PKind::Poll(f) => self.futs[f].is_add.is_none(),
                _ => false,
            })
            .count();
        for (i, l) in self.loc.clone().iter().enumerate() {
            let inq = seen.contains(&(i as u32));
            let dead = destroyed[i];
            match l {
                Loc::Pool => {
                    if !inq && !dead && !self.close_started {
                        if in_flight_gets > 0 {
                            in_flight_gets -= 1;
                        } else {
                            self.flag("object-lost", &["C05"], format!("{}: object {} should wait in the pool but is not queued", at, i));
                        }
                    }
                }
                Loc::Held | Loc::Out => {
                    if dead {
                        self.flag("object-lost", &["C05", "C12"], format!("{}: object {} is in a caller's hands ({:?}) but was destroyed", at, i, l));
                    }
                }
                Loc::InAdd | Loc::Returning | Loc::Gone => {}
            }
        }
        let returning_not_queued = self
            .loc
            .iter()
            .enumerate()
            .filter(|(i, l)| **l == Loc::Returning && !seen.contains(&(*i as u32)))
            .count();
        // an object whose return has pushed it may already have been popped by a get / remove
        // that is itself still parked: such an object is on its way out, not held twice
        let popped_in_flight = self
            .parked
            .iter()
            .filter(|p| match p.kind {
                PKind::TryGet | PKind::TryRemove => true,
                PKind::Poll(f) => self.futs[f].is_add.is_none(),
                _ => false,
            })
            .count();
        let returning_not_queued = returning_not_queued.saturating_sub(popped_in_flight);
        let holds = q.len() + self.held.len() + returning_not_queued;
        if holds > self.max {
            self.flag(
                "over-max-size",
                &["C05"],
                format!("{}: the pool holds {} objects ({} queued, {} checked out) but max_size is {}", at, holds, q.len(), self.held.len() + returning_not_queued, self.max),
            );
        }
        if holds == self.max {
            self.saw_full = true;
        }
        if q.is_empty() && self.held.is_empty() {
            self.saw_empty = true;
        }
    }

    fn after_step(&mut self) {
        self.check_always("after a step");
        if self.violation.is_none() && self.quiescent() {
            self.check_quiescent("after a step");
        }
    }

    fn check_quiescent(&mut self, at: &str) {
        if self.violation.is_some() {
            return;
        }
        let q = self.queue();
        let Some(sn) = self.snap() else { return };
        let st = self.pool.status();
        let size = q.len() + self.held.len();
        let (mut getters, mut adders) = (0usize, 0usize);
        for f in self.pending() {
            if self.futs[f].is_add.is_some() {
                adders += 1;
            } else {
                getters += 1;
            }
        }
        self.labels.push("quiescent-point".into());
        if self.close_done {
            if getters + adders > 0 {
                self.flag(
                    "waiter-survived-close",
                    &["C12"],
                    format!("{}: {} futures are still waiting after close() returned", at, getters + adders),
                );
            }
            if !q.is_empty() {
                self.flag("closed-pool-holds-objects", &["C12"], format!("{}: closed pool still queues objects {:?}", at, q));
            }
            if st.size != self.held.len() || sn.size != self.held.len() {
                self.flag(
                    "closed-pool-size",
                    &["C12"],
                    format!("{}: closed pool reports size {} but {} objects are still checked out ({:?})", at, st.size, self.held.len(), sn),
                );
            }
            return;
        }
        if self.close_started {
            return;
        }
        if getters > 0 && !q.is_empty() {
            self.flag("get-waits-although-object-available", &["C05"], format!("{}: {} getters wait although objects {:?} are queued", at, getters, q));
        }
        if adders > 0 && size < self.max {
            self.flag("add-waits-although-not-full", &["C05"], format!("{}: {} adders wait although the pool holds {} of {}", at, adders, size, self.max));
        }
        // status at rest
        let mut bad = vec![];
        if st.max_size != self.max {
            bad.push(format!("max_size {} but configured {}", st.max_size, self.max));
        }
        if st.size != size {
            bad.push(format!("size {} but {} objects are in the pool or checked out", st.size, size));
        }
        if st.available != q.len() {
            bad.push(format!("available {} but {} objects are queued", st.available, q.len()));
        }
        if st.waiting != getters {
            bad.push(format!("waiting {} but {} callers are blocked in get()/remove()", st.waiting, getters));
        }
        if sn.permits != q.len() || sn.size_permits + size != self.max {
            bad.push(format!("semaphores out of step with contents: {:?}, {} queued, size {}", sn, q.len(), size));
        }
        for b in bad {
            self.flag("status-at-rest", &["C05"], format!("{}: {} ({:?})", at, b, st));
        }
    }

    fn finish(&mut self) {
        while !self.parked.is_empty() && self.violation.is_none() && self.inconclusive.is_none() {
            let pk = self.parked.remove(0);
            let r = self.sched.resume(pk.worker, None);
            self.handle(r, pk.kind, pk.op);
            self.check_always("while settling");
        }
        for _ in 0..100 {
            if self.violation.is_some() || self.inconclusive.is_some() {
                return;
            }
            let p: Vec<usize> = self
                .pending()
                .into_iter()
                .filter(|i| self.futs[*i].flag.is_set())
                .collect();
            let Some(&f) = p.first() else { break };
            self.poll(f, None);
            self.check_always("while settling");
        }
        if self.violation.is_some() || self.inconclusive.is_some() {
            return;
        }
        self.check_always("at the end");
        self.check_quiescent("at the end of the history");
    }
}

// ---------------------------------------------------------------- generation

fn pause(pct: u32) -> BoxedStrategy<Option<u8>> {
    if pct == 0 {
        Just(None).boxed()
    } else {
        prop::option::weighted(pct as f64 / 100.0, 0u8..6).boxed()
    }
}

fn step(prop: &str) -> BoxedStrategy<Step> {
    let c12 = prop == "C12";
    let pa = pause(if c12 { 40 } else { 25 });
    let w_close = if c12 { 6 } else { 0 };
    let alts: Vec<(u32, BoxedStrategy<Step>)> = vec![
        (8, pa.clone().prop_map(|pause| Step::Get { pause }).boxed()),
        (6, pa.clone().prop_map(|pause| Step::TryGet { pause }).boxed()),
        (3, pa.clone().prop_map(|pause| Step::TimeoutGet0 { pause }).boxed()),
        (1, Just(Step::TimeoutGetNoRt).boxed()),
        (6, pa.clone().prop_map(|pause| Step::Add { pause }).boxed()),
        (8, pa.clone().prop_map(|pause| Step::TryAdd { pause }).boxed()),
        (3, (any::<u8>(), pa.clone()).prop_map(|(o, pause)| Step::ReAdd { o, pause }).boxed()),
        (3, pa.clone().prop_map(|pause| Step::Remove { pause }).boxed()),
        (3, pa.clone().prop_map(|pause| Step::TryRemove { pause }).boxed()),
        (4, (any::<u8>(), pa.clone()).prop_map(|(h, pause)| Step::Take { h, pause }).boxed()),
        (10, (any::<u8>(), pa.clone()).prop_map(|(h, pause)| Step::Return { h, pause }).boxed()),
        (1, any::<u8>().prop_map(|h| Step::PanicReturn { h }).boxed()),
        (3, (any::<u8>(), pa.clone()).prop_map(|(f, pause)| Step::Poll { f, pause }).boxed()),
        (8, pa.clone().prop_map(|pause| Step::PollWoken { pause }).boxed()),
        (3, any::<u8>().prop_map(|f| Step::Cancel { f }).boxed()),
        (1, Just(Step::Status).boxed()),
        (w_close, pa.clone().prop_map(|pause| Step::Close { pause }).boxed()),
        (8, (any::<u8>(), prop::option::weighted(0.25, 0u8..4)).prop_map(|(p, pause)| Step::Resume { p, pause }).boxed()),
    ];
    proptest::strategy::Union::new_weighted(alts.into_iter().filter(|a| a.0 > 0).collect()).boxed()
}

fn case(prop: &str, thorough: bool) -> BoxedStrategy<Case> {
    let maxlen = if thorough { 60 } else { 30 };
    (
        prop_oneof![Just(Build::New), Just(Build::FromConfig), Just(Build::FromVec)],
        0u8..=4,
        prop::collection::vec(step(prop), 1..=maxlen),
    )
        .prop_map(|(build, n, steps)| Case { build, n, steps, sweep: None, timed: None })
        .boxed()
}

fn strip_pauses(s: Step) -> Step {
    match s {
        Step::Get { .. } => Step::Get { pause: None },
        Step::TryGet { .. } => Step::TryGet { pause: None },
        Step::TimeoutGet0 { .. } => Step::TimeoutGet0 { pause: None },
        Step::Add { .. } => Step::Add { pause: None },
        Step::TryAdd { .. } => Step::TryAdd { pause: None },
        Step::ReAdd { o, .. } => Step::ReAdd { o, pause: None },
        Step::Remove { .. } => Step::Remove { pause: None },
        Step::TryRemove { .. } => Step::TryRemove { pause: None },
        Step::Take { h, .. } => Step::Take { h, pause: None },
        Step::Return { h, .. } => Step::Return { h, pause: None },
        Step::Poll { f, .. } => Step::Poll { f, pause: None },
        Step::PollWoken { .. } => Step::PollWoken { pause: None },
        Step::Close { .. } => Step::Close { pause: None },
        Step::Resume { .. } => Step::Status,
        s => s,
    }
}

fn sweep_case(prop: &str, thorough: bool) -> BoxedStrategy<Case> {
    let maxlen = if thorough { 12 } else { 9 };
    (
        prop_oneof![Just(Build::New), Just(Build::FromConfig), Just(Build::FromVec)],
        0u8..=3,
        prop::collection::vec(step(prop), 2..=maxlen),
    )
        .prop_map(|(build, n, steps)| Case {
            build,
            n,
            steps: steps.into_iter().map(strip_pauses).collect(),
            sweep: Some(1),
            timed: None,
        })
        .boxed()
}

/// every placement of one pause in a pause-free history
fn run_sweep(ctx: &Ctx, case: &Case) -> Report {
    let mut base = case.clone();
    base.sweep = None;
    // learn how many schedule points each step passes
    let it = Interp::new(ctx, &base);
    let world = it.world.clone();
    let first = it.run();
    let mut rep = Report::default();
    rep.executions = 1;
    rep.labels = first.labels.clone();
    if first.violation.is_some() || first.inconclusive.is_some() {
        rep.violation = first.violation;
        rep.inconclusive = first.inconclusive;
        return rep;
    }
    let mut counts = vec![0usize; base.steps.len()];
    {
        let w = world.w();
        let mut cur: Option<usize> = None;
        for l in &w.log {
            if let Some(rest) = l.strip_prefix("Step ") {
                cur = rest.split(' ').next().and_then(|n| n.parse().ok());
            } else if l.starts_with("Point") {
                if let Some(i) = cur {
                    if i < counts.len() {
                        counts[i] += 1;
                    }
                }
            }
        }
    }
    let n = base.steps.len();
    for i in 0..n {
        for k in 0..counts[i].min(10) {
            let Some(paused) = base.steps[i].with_pause(k as u8) else { continue };
            let max_j = (n - 1 - i).min(4);
            for j in 0..=max_j {
                let mut steps = base.steps.clone();
                steps[i] = paused;
                if j > 0 {
                    steps.insert(i + j + 1, Step::Resume { p: 0, pause: None });
                }
                let sub = Case {
                    build: base.build,
                    n: base.n,
                    steps,
                    sweep: None,
                    timed: None,
                };
                let r = Interp::new(ctx, &sub).run();
                rep.executions += 1;
                for l in r.labels {
                    if l.starts_with("park:") {
                        rep.labels.push(l);
                    }
                }
                if r.nontrivial {
                    rep.sub_nontrivial.push(vcore::drive::hash_json(&sub));
                }
                if let Some(w) = r.inconclusive {
                    rep.inconclusive = Some(w);
                    return rep;
                }
                if let Some(v) = r.violation {
                    rep.violation = Some(Violation {
                        oracle: v.oracle,
                        step: v.step,
                        detail: format!(
                            "sweep placement (step {}, point {}, resume after {}): {} | concrete case: {}",
                            i,
                            k,
                            j,
                            v.detail,
                            serde_json::to_string(&sub).unwrap_or_default()
                        ),
                        trace: v.trace,
                    });
                    return rep;
                }
            }
        }
    }
    rep.labels.sort();
    rep.labels.dedup();
    rep
}

pub struct Usim;

impl Engine for Usim {
    const NAME: &'static str = "usim";
    type Case = Case;

    fn properties() -> Vec<&'static str> {
        vec!["C05", "C12"]
    }

    fn hang_is_violation(prop: &str) -> bool {
        // these properties promise that calls complete (never deadlock / always complete / instead of hanging)
        matches!(prop, "C12")
    }

    fn rule(prop: &str) -> String {
        let common = "case = how the pool is built (new / from_config / From<Vec>), max_size 0..=4 and a history of get / try_get / timeout_get / add / try_add / remove / try_remove / take / return / poll / cancel / close steps with optional thread-level pauses at schedule points; distinct by hash of the whole case. Non-trivial: ";
        let r = match prop {
            "C05" => "the pool was full and empty at least once each, or a waiting get()/add() was cancelled, or a paused operation overlapped another step",
            _ => "close() overlapped another operation (pause) or met at least one waiter or queued object, and further steps followed it",
        };
        format!("{}{}", common, r)
    }

    fn assumptions(_prop: &str) -> Vec<String> {
        vec![
            "interleavings are explored at the granularity of the cfg(deadpool_verif) schedule points under sequential consistency".into(),
            "bounds: max_size <= 4, <= 6 pending futures, bounded history length".into(),
        ]
    }

    fn stages(ctx: &Ctx) -> Vec<Stage<Case>> {
        let thorough = ctx.tier == Tier::Thorough;
        let stages_v = vec![
            Stage {
                name: "random".into(),
                cases: if thorough { 16 * 30000 } else { 16 * 1500 },
                strategy: case(&ctx.prop, thorough),
            },
            Stage {
                name: "sweep".into(),
                cases: if thorough { 16 * 600 } else { 16 * 40 },
                strategy: sweep_case(&ctx.prop, thorough),
            },
        ];
        let mut stages = stages_v;
        if ctx.prop == "C12" {
            // calls with a timeout need a runtime: unmanaged histories on the virtual clock,
            // judged for panics and for Closed after close() only
            stages.push(Stage {
                name: "timeouts".into(),
                cases: if thorough { 16 * 60000 } else { 16 * 4000 },
                strategy: tsim::case(thorough)
                    .prop_map(|mut t| {
                        t.unmanaged = true;
                        Case { build: Build::New, n: 0, steps: vec![], sweep: None, timed: Some(t) }
                    })
                    .boxed(),
            });
        }
        stages
    }

    fn run(ctx: &Ctx, case: &Case) -> Report {
        if let Some(t) = &case.timed {
            return <tsim::Tsim as Engine>::run(ctx, t);
        }
        if case.sweep.is_some() {
            run_sweep(ctx, case)
        } else {
            Interp::new(ctx, case).run()
        }
    }
}


/// Byte-level decoding of a case for the libFuzzer target.
pub fn decode(data: &[u8], prop: &str) -> arbitrary::Result<Case> {
    use arbitrary::Unstructured;
    let mut u = Unstructured::new(data);
    let build = match u.int_in_range(0..=2u8)? {
        0 => Build::New,
        1 => Build::FromConfig,
        _ => Build::FromVec,
    };
    let n = u.int_in_range(0..=4u8)?;
    let close = prop == "C12";
    fn pause(u: &mut Unstructured) -> arbitrary::Result<Option<u8>> {
        let b = u.int_in_range(0..=23u8)?;
        Ok(if b < 6 { Some(b) } else { None })
    }
    let mut steps = vec![];
    while !u.is_empty() && steps.len() < 80 {
        let s = match u.int_in_range(0..=17u8)? {
            0 | 1 => Step::Get { pause: pause(&mut u)? },
            2 => Step::TryGet { pause: pause(&mut u)? },
            3 => Step::TimeoutGet0 { pause: pause(&mut u)? },
            4 => Step::TimeoutGetNoRt,
            5 => Step::Add { pause: pause(&mut u)? },
            6 | 7 => Step::TryAdd { pause: pause(&mut u)? },
            8 => Step::ReAdd { o: u.arbitrary()?, pause: pause(&mut u)? },
            9 => Step::Remove { pause: pause(&mut u)? },
            10 => Step::TryRemove { pause: pause(&mut u)? },
            11 => Step::Take { h: u.arbitrary()?, pause: pause(&mut u)? },
            12 | 13 => Step::Return { h: u.arbitrary()?, pause: pause(&mut u)? },
            14 => Step::PollWoken { pause: pause(&mut u)? },
            15 => Step::Cancel { f: u.arbitrary()? },
            16 if close => Step::Close { pause: pause(&mut u)? },
            17 => Step::Resume { p: u.arbitrary()?, pause: None },
            _ => Step::Status,
        };
        steps.push(s);
    }
    Ok(Case {
        build,
        n,
        steps,
        sweep: None,
        timed: None,
    })
}
